#!/bin/bash
# usage: selftest.sh [seed-id ...]
# Must-fail corpus: applies every kept seeded change (seeded/<id>/patch.diff) to a scratch copy of /repo and
# runs the check of the property it targets (and, if that one is silent, the checks recorded in meta.json
# as having caught it). Prints one line per seed; exit 1 if a seed that used to be reported no longer is.
cd /verif
ids="$@"; [ -z "$ids" ] && ids=$(ls seeded | grep -E '^C[0-9]+-[A-Z]$')
rc=0
for id in $ids; do
  d=/verif/seeded/$id
  [ -f $d/patch.diff ] || continue
  target=$(python3 -c "import json;print(json.load(open('$d/meta.json'))['breaks_property'])")
  prev=$(python3 -c "import json;print(' '.join(json.load(open('$d/meta.json')).get('caught_by',[])))")
  out=$(tools/check_patch.sh $d/patch.diff $target 2>&1)
  if echo "$out" | grep -q "^VIOLATION"; then
    echo "$id: reported by $target"
    python3 - "$d/meta.json" "$target" <<'PY'
import json,sys
m=json.load(open(sys.argv[1]))
cb=m.get('caught_by',[])
if sys.argv[2] not in cb:
    cb.append(sys.argv[2]); cb.sort(); m['caught_by']=cb
    json.dump(m,open(sys.argv[1],'w'),indent=1)
PY
    continue
  fi
  hit=""
  for p in $prev; do
    [ "$p" = "$target" ] && continue
    if tools/check_patch.sh $d/patch.diff $p 2>&1 | grep -q "^VIOLATION"; then hit=$p; break; fi
  done
  if [ -n "$hit" ]; then echo "$id: silent under $target, reported by $hit"; else
    if [ -n "$prev" ]; then echo "$id: NO LONGER REPORTED (was: $prev)"; rc=1; else echo "$id: not reported (never was)"; fi
  fi
done
exit $rc

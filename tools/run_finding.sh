#!/bin/bash
# usage: run_finding.sh <pkgdir> <testfile>... [-- repo]   e.g. run_finding.sh websocket d1_pose_test.go
# Injects the given demonstration tests (from /verif/findings) into the package with `go test ${RACE:+-race} -overlay`
# (nothing is written to the repository) and runs them.
pkg="$1"; shift
repo=/repo
files=()
while [ $# -gt 0 ]; do
  if [ "$1" = "--" ]; then repo="$2"; shift 2; continue; fi
  files+=("$1"); shift
done
tmp=$(mktemp -d /tmp/hvcfind.XXXXXX)
{
  echo '{"Replace":{'
  first=1
  for f in zz_verif_helpers_test.go "${files[@]}"; do
    [ -f "/verif/findings/$pkg/$f" ] && src="/verif/findings/$pkg/$f" || src="/verif/findings/$f"
    [ $first -eq 1 ] || echo ','
    first=0
    printf '"%s/%s/zz_verif_%s":"%s"' "$repo" "$pkg" "$f" "$src"
  done
  echo '}}'
} > "$tmp/ov.json"
cd "$repo" && GOFLAGS=-mod=mod GOPROXY=off GOSUMDB=off GOTOOLCHAIN=local go test ${RACE:+-race} -overlay "$tmp/ov.json" -vet=off -count=1 -timeout 120s -run "${RUN:-TestVerif}" ./$pkg 2>&1 | grep -v "^{\"time" | tail -40
rc=${PIPESTATUS[0]}
rm -rf "$tmp"
exit $rc

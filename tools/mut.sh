#!/bin/bash
# usage: mut.sh <file-in-repo> <func-name-or-> <old> <new> -- <hvc verify args...>
# Copies /repo to a scratch dir, applies one textual replacement (inside the named func if given, '-' = anywhere),
# runs hvc verify on the copy, removes the copy. old/new may contain \n and \t escapes.
file="$1"; fn="$2"; old="$3"; new="$4"; shift 4; [ "$1" = "--" ] && shift
scr=$(mktemp -d /tmp/hvcmut.XXXXXX)
rsync -a --exclude .git /repo/ "$scr/"
python3 - "$scr/$file" "$fn" "$old" "$new" <<'PY'
import sys,re
p,fn,old,new=sys.argv[1:5]
s=open(p).read()
old=old.replace('\\n','\n').replace('\\t','\t'); new=new.replace('\\n','\n').replace('\\t','\t')
start=0
if fn!='-':
    m=re.search(r'^func (\([^)]*\) )?'+re.escape(fn)+r'\(', s, re.M)
    if not m: print("FUNC NOT FOUND"); sys.exit(3)
    start=m.start()
k=s.find(old,start)
if k<0: print("PATTERN NOT FOUND"); sys.exit(3)
s=s[:k]+new+s[k+len(old):]
open(p,'w').write(s)
PY
[ $? -eq 0 ] || { rm -rf "$scr"; exit 3; }
(cd "$scr" && GOFLAGS=-mod=mod GOPROXY=off GOSUMDB=off GOTOOLCHAIN=local go build ./... ) || echo "MUTANT DOES NOT COMPILE"
/verif/bin/hvc verify -repo "$scr" "$@" || true
rm -rf "$scr"

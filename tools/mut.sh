#!/bin/bash
# usage: mut.sh <file-in-repo> <python-expr old> <python-expr new> -- <hvc verify args...>
# Copies /repo to a scratch dir, applies one textual replacement, runs hvc verify, removes the copy.
set -e
file="$1"; old="$2"; new="$3"; shift 3; [ "$1" = "--" ] && shift
scr=$(mktemp -d /tmp/hvcmut.XXXXXX)
rsync -a --exclude .git /repo/ "$scr/"
python3 - "$scr/$file" "$old" "$new" <<'PY'
import sys
p,old,new=sys.argv[1:4]
s=open(p).read()
old=old.encode().decode('unicode_escape'); new=new.encode().decode('unicode_escape')
if old not in s:
    print("PATTERN NOT FOUND"); sys.exit(3)
s=s.replace(old,new,1)
open(p,'w').write(s)
PY
(cd "$scr" && GOFLAGS=-mod=mod GOPROXY=off GOSUMDB=off GOTOOLCHAIN=local go build ./... ) || echo "MUTANT DOES NOT COMPILE"
/verif/bin/hvc verify -repo "$scr" "$@" || true
rm -rf "$scr"

#!/usr/bin/env python3
"""Writes /verif/seeded/SUMMARY.md from the meta.json files of the seeded changes."""
import json, glob, os, re
rows=[]
for d in sorted(glob.glob('/verif/seeded/*/')):
    m=os.path.join(d,'meta.json')
    if not os.path.exists(m): continue
    meta=json.load(open(m))
    notes=meta.get('notes','')
    # first paragraph describing this change
    x=meta.get('source_letter') or meta['id'].split('-')[1]
    sec=re.split(r'\n#+ ', notes)
    desc=''
    for s in sec:
        if re.match(r'(Change )?%s\b'%x, s.strip()):
            desc=' '.join(s.strip().split('\n')[1:6])
            break
    rows.append((meta['id'], meta['breaks_property'], ', '.join(meta.get('caught_by',[])) or 'NONE', desc[:300]))
with open('/verif/seeded/SUMMARY.md','w') as f:
    f.write('# Seeded changes\n\nEach change was produced by an independent sub-agent (property text + scratch worktree only), confirmed in a scratch copy (build ok, existing suite ok, demonstration fails with the change and passes without) and run against every registered check.\n\n| id | targets | reported by | what it does |\n|---|---|---|---|\n')
    for r in rows:
        f.write('| %s | %s | %s | %s |\n'%(r[0],r[1],r[2],r[3].replace('|','/')))
print(len(rows),'seeds')

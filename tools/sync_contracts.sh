#!/bin/bash
# mirror the in-repo contract files into /verif/contracts (used only if the in-repo file is missing)
set -e
cd /repo
for f in $(git ls-files '*zz_contracts_verif.go'; ls */zz_contracts_verif.go */*/zz_contracts_verif.go 2>/dev/null | sort -u); do
  mkdir -p /verif/contracts/$(dirname $f)
  cp $f /verif/contracts/$f
done

#!/usr/bin/env python3
"""Contract mutation (vacuity audit).

For every `ensures` / `invariant` clause of the contract files, a copy of /repo is made in which that one
clause is negated, and the function it belongs to is verified. A negated clause that still verifies means
that the paths it speaks about carry contradictory hypotheses (everything is provable there) or that the
clause was never an obligation at all - either way the original "proof" of that clause meant nothing.

usage: contract_mutation.py [-j N] [file-substring ...]      (default: all contract files, 6 workers)
Prints one line per surviving mutant; exit 1 if there is any.
"""
import os, re, sys, shutil, subprocess, tempfile, concurrent.futures, glob

REPO = '/repo'
HVC = '/verif/bin/hvc'

def clauses(path):
    """yield (lineno, func_key, kind) for every ensures/invariant clause"""
    func = None
    for i, l in enumerate(open(path).read().split('\n')):
        m = re.match(r'//@ func (.*)$', l)
        if m:
            func = m.group(1).strip()
            continue
        if re.match(r'//@ (spec fn|type|uf) ', l):
            func = None
            continue
        m = re.match(r'//@\s+(ensures|invariant)\s+(\{[^}]*\}\s*)?(.*)$', l)
        if m and func:
            yield i, func, m.group(1), m.group(2) or '', m.group(3)

def mutate_line(l):
    m = re.match(r'(//@\s+(?:ensures|invariant)\s+)(\{[^}]*\}\s*)?(.*)$', l)
    return m.group(1) + (m.group(2) or '') + '!(' + m.group(3) + ')'

def run_one(job):
    relpath, lineno, func, kind, text = job
    scr = tempfile.mkdtemp(prefix='hvcmutc.')
    try:
        subprocess.run(['rsync', '-a', '--exclude', '.git', REPO + '/', scr + '/'], check=True)
        p = os.path.join(scr, relpath)
        lines = open(p).read().split('\n')
        lines[lineno] = mutate_line(lines[lineno])
        open(p, 'w').write('\n'.join(lines))
        out = subprocess.run([HVC, 'verify', '-repo', scr, '-timeout', '4000', func], capture_output=True, text=True).stdout
        head = [l for l in out.split('\n') if l.startswith('== ')]
        if not head:
            return (job, 'norun', out[-300:])
        if 'ERROR' in out:
            return (job, 'error', [l for l in out.split('\n') if 'ERROR' in l][0][:200])
        m = re.search(r'(\d+) obligations, (\d+) discharged, (\d+) not', head[0])
        if m and m.group(3) == '0':
            return (job, 'SURVIVED', head[0])
        return (job, 'killed', '')
    finally:
        shutil.rmtree(scr, ignore_errors=True)

def main():
    args = sys.argv[1:]
    workers = 6
    if args and args[0] == '-j':
        workers = int(args[1]); args = args[2:]
    files = sorted(glob.glob(REPO + '/**/zz_contracts_verif.go', recursive=True))
    jobs = []
    for f in files:
        rel = os.path.relpath(f, REPO)
        if args and not any(a in rel for a in args):
            continue
        for (i, func, kind, tags, text) in clauses(f):
            jobs.append((rel, i, func, kind, text))
    print(len(jobs), 'clauses', flush=True)
    surv = 0
    stats = {}
    with concurrent.futures.ThreadPoolExecutor(max_workers=workers) as ex:
        for job, status, detail in ex.map(run_one, jobs):
            stats[status] = stats.get(status, 0) + 1
            if status != 'killed':
                if status == 'SURVIVED':
                    surv += 1
                print('%s: %s:%d %s %s %s | %s' % (status, job[0], job[1] + 1, job[2], job[3], job[4][:110], detail), flush=True)
    print(stats)
    sys.exit(1 if surv else 0)

if __name__ == '__main__':
    main()

#!/bin/bash
# usage: check_patch.sh <patch.diff|-> [Cxx ...]   (default: all claimed properties)
# Applies the patch to a scratch copy of /repo (never to /repo itself), runs the registered quick
# checks against the copy with a scratch evidence directory, prints the verdict lines, removes the copy.
patch="$1"; shift
props="$@"
[ -z "$props" ] && props=$(python3 -c "import json;print(' '.join(sorted(json.load(open('/verif/props.json'))['props'])))")
scr=$(mktemp -d /tmp/hvcchk.XXXXXX)
rsync -a --exclude .git /repo/ "$scr/repo/"
mkdir -p "$scr/verif"
cp -r /verif/props.json /verif/known_findings.txt /verif/props /verif/findings "$scr/verif/"
if [ "$patch" != "-" ]; then
  (cd "$scr/repo" && patch -p1 -s < "$patch") || { echo "PATCH DOES NOT APPLY"; rm -rf "$scr"; exit 3; }
fi
(cd "$scr/repo" && GOFLAGS=-mod=mod GOPROXY=off GOSUMDB=off GOTOOLCHAIN=local go build ./... ) || echo "PATCHED TREE DOES NOT COMPILE"
rc=0
for p in $props; do
  out=$(/verif/bin/hvc check --repo "$scr/repo" --verif "$scr/verif" --property $p 2>&1)
  echo "$out" | grep -A1 "^VIOLATION" | grep -v "^--" | sed "s#$scr##g" | cut -c1-240
  echo "$out" | tail -1
  echo "$out" | grep -q "^VIOLATION" && rc=1
done
rm -rf "$scr"
exit $rc

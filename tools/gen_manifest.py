#!/usr/bin/env python3
"""Generates /verif/MANIFEST.json from props.json and the tables below."""
import json, subprocess

props = json.load(open('/verif/props.json'))['props']
hook_commits = subprocess.run(['git','-C','/repo','log','--format=%H %s'],capture_output=True,text=True).stdout.strip().split('\n')
hooks = [l.split()[0] for l in hook_commits if 'verif hook' in l]

LEVEL = {
 'C01': ("proof", "Partial: the premises of the convergence argument are proved, its composition is not. Machine-checked for all states, requests and flag sets: (1) the joiner's snapshot — SESSION_STATE's participants, entities (owner, flag, latest pose) and components, VIKJA_STATE's actions and ODAL_STATE's instances enumerate exactly the stored sets (sound and complete, inductive invariants with a ghost position map); (2) for every mutating handler behaviour the exact state change over the whole view and the exact relayed payload and recipients, so that applying the relay to a view equal to the old state gives the new state; (3) applicability: added ids are fresh, deleted/updated things exist. The induction over histories is a pen-and-paper step (DESIGN.md). One step lemma fails and is a known finding (D13: a new subscriber is told nothing about existing components), replayed on the real code by a bounded test. The composition itself has a bounded stand-in, labelled bounded and not counted as proved: 4000 pseudo-random 40-request histories over 4 connections are replayed on the real handlers with per-connection views built only from received messages and compared with the server state after every request.", "§10 C01"),
 'C03': ("proof", "The per-request isolation lemma is proved for every session-scoped entry point (the 17 request handlers, join, leave, disconnect, and the vikja/odal module handlers): for every other session o whose object graph is separate from the requester's (sepSessions: distinct maps, stores, generators, entity and participant objects; lazily allocated maps may both still be nil), everything o's members can observe is unchanged after the request (obsSame: members, entities with owner/flag/pose, components, subscriptions, id counters, module-state table, identity of the maps) and the separation holds again - including against a session the request creates (all its maps are fresh) or joins. In addition: frame obligations confine each handler's writes to objects reached from its own session; a connection that is not joined gets an error, changes nothing and sends nothing; module Init re-binds the module to the joined session's own state; the fields holding a session's maps are written only by the constructors (immutable obligations swept over every function of models, websocket and modules). A second lemma proves that any two other sessions stay separate from each other. What is not machine-checked: the induction scheme over histories from these lemmas to the two-run noninterference statement (pen-and-paper, DESIGN.md), and dagaz's partition frame. The two-run statement has a bounded stand-in, labelled bounded: 2000 pseudo-random histories over two disjoint groups of connections are run on the real handlers with and without the other group's traffic and the received message streams compared.", "§10 C03"),
 'C02': ("proof", "Every accepted behaviour of every mutating handler is proved to emit exactly its declared, ordered event list (one response, one abstract Broadcast with the declared payload, or nothing for refusals) for all states satisfying the representation invariant, all decoded requests and all flag sets; Session.Broadcast's own loop is proved to deliver exactly once to every other member and never to the sender (ghost delivery counters, inductive invariant over the visited-key set).", "§10 C02"),
 'C04': ("proof", "Behaviours of every request handler enumerate the protocol table (complete and disjoint, proved); each is proved to send exactly one response echoing the request id with the named code, to leave the world unchanged when refusing, and to return an error without touching any session when not joined.", "§10 C04"),
 'C05': ("proof", "Foreign delete / pose update behaviours are proved to refuse (or drop) and leave the world unchanged; the owner field is set only at creation and participant ids are strictly increasing (C10).", "§10 C05"),
 'C06': ("proof", "leaveSession's postcondition over the whole view (entities, components, subscriptions, members, one delete relay per removed entity via content-keyed event counters, one leave relay) is proved with an inductive invariant over the departing participant's entity-id set.", "§10 C06"),
 'C07': ("proof", "Registry operations (Add/Remove/GetByGlobalID) are proved against a registry invariant (key = gid(id), ids live, gauge total); join success registers the session and the participant, last leave unregisters and closes.", "§10 C07"),
 'C08': ("proof", "(i) no-panic obligations (nil dereference, index, division, nil-map write, type assertion, negative make) for every function under contract with all straight-line callees inlined, over unconstrained decoded messages; (ii) the connection loop: every iteration's events match the declared alternatives (idle timer reset before each handled message, failures lead to disconnect) and handleDisconnect runs exactly once before the loop exits (inductive invariant over the cancel flag); (iii) no blocking channel send in the loop's failure path and no plain channel receive that can wait forever (blocking:chanrecv: a value is known to be buffered, or the channel is a context's Done()); (iv) the connected-clients gauge is incremented once on connect and decremented once on disconnect on the same labels. The dagaz grid internals are covered only by a bounded stand-in (listed concrete inputs), labelled bounded.", "§10 C08"),
 'C09': ("proof", "Lock discipline as a sufficient condition for data-race freedom on the declared fields and for deadlock freedom among the mutexes: every access to a guarded_by field in every function of models, websocket, modules, featureflag, receipt and http is proved to happen with its mutex held in a sufficient mode (or inside sync.Once.Do, or on an object still under construction), every acquisition respects the global level order (also through contracted callees and callbacks), and every function returns with the locks it entered with. Holds for all schedules and any number of connections.", "§10 C09"),
 'C10': ("proof", "SequentialIDGenerator.New/Reuse against the defined live-set view; monotone generators never reissue; type registration ids; new session ids are not live before.", "§10 C10"),
 'C11': ("proof", "HandleEntityUpdatePose behaviours (unknown, foreign, no pose: dropped with no effect; otherwise stored pose equals the update and one relay carries it); timing and coalescing are outside the technique.", "§10 C11"),
 'C12': ("proof", "Every EntityComponentStore method is proved against the abstract map view (whole-view postconditions, store invariant preserved) and every component handler against behaviours taken from the property statement.", "§10 C12"),
 'C13': ("proof", "Subscribe/Unsubscribe/UnsubscribeByParticipant/Notify (higher-order: callback called exactly once iff somebody subscribes, with a complete duplicate-free id list) and BroadcastTo (exactly once to each named member, never the sender) are proved; handlers relay only when the declared condition holds.", "§10 C13"),
 'C14': ("proof", "HandleCustomMessage behaviours (size limit exact, same body slice, sender id stamped, targeted vs untargeted) and BroadcastTo/GetParticipantsByIDs/Broadcast delivery contracts are proved.", "§10 C14"),
 'C15': ("proof", "The handshake closure returns nil exactly when VerifyUserAuth accepts the token extracted from the request, and the HTTP middleware calls the wrapped handler exactly once in that case and otherwise answers 401 and calls nothing (both proved on the real closures, token validation itself assumed); a structural check of cmd.main's SSA confirms the relay server and /smoke-test are mounted behind them.", "§10 C15"),
 'C16': ("proof", "vikja: the action store is proved against the (entity, name) -> action view; handleSetEntityAction behaviours are taken from the property (older than stored: refused, unchanged, no relay; otherwise replaced and relayed once; missing fields / unknown entity refused). odal: at most one instance per entity by construction of the view, fresh monotone instance ids, owner only. Joiner snapshots enumerate exactly the stored sets; entity deletion and departure cascade.", "§10 C16"),
 'C17': ("proof", "Every relay in every handler behaviour is a conditional event guarded by exactly its own flag; the obligations are proved with the flag set an arbitrary map, i.e. for all 1024 subsets and any unknown names at once.", "§10 C17"),
 'C18': ("proof", "HandleSignedLatency starts a measurement only for a joined participant, 3..50 rounds, non-empty wallet; OnPing behaviours from the property (unknown or already answered id: refused, nothing changes; otherwise exactly one further ping or exactly one response); the response's Signature is hex(Sign(Keccak(Data), key)) of exactly the Data field; Data is the marshaled LatencyData naming client, session UUID, wallet, exactly the issued ping ids; statistics: min <= max, every round within [min,max], last = final round, p95 within. That the clock-derived ping ids of one measurement are distinct is an assumption (A-pingid) with a bounded stand-in, labelled bounded: complete measurements of 3, 10 and 50 rounds against an instantly answering client on the real handlers.", "§10 C18"),
 'C19': ("proof", "HandleReceipt behaviours (empty field, accepted = exactly one enqueue of the unchanged payload and one response, queue full) are proved; the non-blocking select is modelled as a ready/not-ready choice; VerifyPayload returns nil exactly for well-formed payloads; the receipts worker forwards each dequeued payload exactly once iff it is well formed, unchanged; ForwardToNCS posts it once.", "§10 C19"),
 'C20': ("proof", "Only the retention and sharing clauses are claimed: dagaz.Module.Init creates the spatial partition once per session and never replaces an existing one, all participants share it through the session's module state, every quad sample is inserted into that partition and each query answers once from it. Index completeness is not proved: a bounded stand-in (labelled bounded in the evidence) replays about 450 000 insert sequences over 144 quads on the real grid and checks that every stored plane is registered in every cell its footprint overlaps; the geometric primitives are not applicable to this technique (see not_covered).", "§10 C20"),
}
NOTE = "Assumed contracts of dependencies (protobuf decode/encode, errors, sync, time, uuid, fmt), sequential handler-atomic histories (A-seq), trusted clauses and the assumptions listed in the evidence file; contracts written on interface methods are checked against every implementation in the repository (evidence field interface_contracts lists each pair and the few that stay assumed: the dagaz RegularGrid methods and the join handler's preserved patterns); soundness of hvc, go/ssa and the SMT solvers."

checks = []
for pid in sorted(props):
    cat, text, ref = LEVEL[pid]
    checks.append({
        "property_id": pid,
        "quick_cmd": f"bin/hvc check --property {pid} --tier quick",
        "thorough_cmd": f"bin/hvc check --property {pid} --tier thorough",
        "evidence_file": f"/verif/evidence/{pid}.json",
        "replay_cmd_template": "bin/hvc replay {path}",
        "engine": "hvc",
        "level_claimed": {"category": cat, "text": text, "design_ref": ref},
        "level_note": NOTE,
        "technique": "contract-based deductive verification: weakest-precondition style VCs generated from go/ssa of the real code against //@ contracts, discharged by z3/cvc5",
    })

na = json.load(open('/verif/not_applicable.json'))
claimed = set(props)
na = [x for x in na if x['property_id'] not in claimed]

manifest = {
 "version": 1,
 "setup_cmd": "cd engine && GOFLAGS=-mod=vendor GOPROXY=off GOSUMDB=off GOTOOLCHAIN=local go build -o ../bin/hvc .",
 "hooks": {
   "guard": "verif",
   "enable": "go build -tags verif (the hook files are comment-only contract files */zz_contracts_verif.go; the compiled program is identical with and without the tag)",
   "baseline_off_cmd": "cd /repo && go test -vet=off -count=1 -timeout 25m ./...",
   "source_commits": hooks,
   "add_only": True,
 },
 "engines": [{"name": "hvc", "path": "/verif/engine", "serves_properties": sorted(props), "kind_free_text": "verification-condition generator over go/ssa with Gobra-style contracts in comment files; SMT back ends z3 5.1.0, cvc5 1.0.3, z3 4.8.12"}],
 "checks": checks,
 "not_applicable": na,
 "notes": "Contracts live in /repo/*/zz_contracts_verif.go (build tag verif, comment-only); /verif/contracts is a mirror. known_findings.txt lists fixed defects. See DESIGN.md.",
}
json.dump(manifest, open('/verif/MANIFEST.json','w'), indent=1)
print("claimed:", sorted(claimed), "not_applicable:", [x['property_id'] for x in na])

#!/bin/bash
# usage: new_worktree.sh <name>  -> creates /tmp/seed/<name> : a scratch git worktree of /repo HEAD without the contract files
set -e
name="$1"
mkdir -p /tmp/seed
git -C /repo worktree add -q -b "seed-$name" "/tmp/seed/$name" HEAD
cd "/tmp/seed/$name"
git rm -q $(git ls-files '*zz_contracts_verif.go')
git commit -qm "scratch base (contract comment files removed)"
mkdir -p "/tmp/seed/$name.out"
echo "/tmp/seed/$name"

#!/bin/bash
# usage: verify_all.sh [repo]   -- verifies every function under contract and prints everything that is not green
# (undischarged obligations AND generation errors); exit 1 if anything other than listed open findings shows up.
repo=${1:-/repo}
out=$(/verif/bin/hvc verify -repo "$repo" all 2>&1 | grep "^==\|^   \[\|ERROR")
echo "$out" | grep -v " 0 not" | grep -B1 "^   \[\|ERROR" | grep -v "^--"
n=$(echo "$out" | grep -c "^==")
echo "$n functions"

#!/bin/bash
# usage: confirm_seed.sh <prop-id lower, e.g. c02> <A|B> [store-as letter, default the same]
# Confirms a sub-agent's seeded change in a scratch copy of /repo HEAD (never /repo itself):
#   build ok, full suite ok with the change, demo fails with the change, demo passes without it;
# then runs every claimed check against the changed copy. On success stores the change under /verif/seeded/<ID>-<x>/.
p="$1"; x="$2"
src=/tmp/seed/$p.out
id=$(echo ${p:0:3} | tr a-z A-Z)-${3:-$x}
scr=$(mktemp -d /tmp/hvcseed.XXXXXX)
export GOFLAGS=-mod=mod GOPROXY=off GOSUMDB=off GOTOOLCHAIN=local
rsync -a --exclude .git /repo/ "$scr/repo/"
cd "$scr/repo"
demo="$src/$x.demo_test.go"
dir=$(head -3 "$demo" | grep -o 'place in: *[a-z/]*' | sed 's/place in: *//' | sed 's#/$##')
[ -z "$dir" ] && dir=websocket
name="zz_seed_${p}_${x}_test.go"
run_demo() { cp "$demo" "$dir/$name"; go test ${RACE:+-race} -vet=off -count=1 -timeout 300s -run "$(grep -o 'func Test[A-Za-z0-9_]*' "$demo" | sed 's/func //' | paste -sd'|')" ./$dir > "$scr/demo.out" 2>&1; rc=$?; rm -f "$dir/$name"; return $rc; }
echo "== $id (demo in $dir)"
run_demo; base=$?
echo "demo on unchanged tree: exit $base"
patch -p1 -s < "$src/$x.patch.diff" || { echo "PATCH DOES NOT APPLY"; rm -rf "$scr"; exit 3; }
go build ./... ; b=$?
echo "build with change: exit $b"
go test -vet=off -count=1 -timeout 25m ./... > "$scr/suite.out" 2>&1; s=$?
echo "suite with change: exit $s ($(grep -c '^ok' $scr/suite.out) ok, $(grep -c '^FAIL' $scr/suite.out) fail)"
run_demo; d=$?
echo "demo with change: exit $d"
tail -5 "$scr/demo.out" | cut -c1-200
confirmed=no
if [ $base -eq 0 ] && [ $b -eq 0 ] && [ $s -eq 0 ] && [ $d -ne 0 ]; then confirmed=yes; fi
echo "confirmed: $confirmed"
# run the checks
mkdir -p "$scr/verif"; cp -r /verif/props.json /verif/known_findings.txt /verif/props /verif/findings "$scr/verif/"
props=$(python3 -c "import json;print(' '.join(sorted(json.load(open('/verif/props.json'))['props'])))")
caught=""
: > "$scr/checks.out"
run_one() { pr="$1"; mkdir -p "$scr/v_$pr"; cp -r "$scr/verif/." "$scr/v_$pr/"; /verif/bin/hvc check --repo "$scr/repo" --verif "$scr/v_$pr" --property $pr > "$scr/out_$pr.txt" 2>&1; }
export -f run_one; export scr
echo $props | tr ' ' '\n' | xargs -P 5 -I{} bash -c 'run_one {}'
for pr in $props; do
  if grep -q "^VIOLATION" "$scr/out_$pr.txt"; then
    caught="$caught $pr"
    grep -A1 "^VIOLATION" "$scr/out_$pr.txt" | grep "function=\|bounded case" | sed "s/^/  [$pr]/" | cut -c1-260 >> "$scr/checks.out"
  fi
done
echo "caught by:${caught:- NONE}"
head -12 "$scr/checks.out"
if [ "$confirmed" = yes ]; then
  dst=/verif/seeded/$id
  mkdir -p "$dst"
  cp "$src/$x.patch.diff" "$dst/patch.diff"; cp "$demo" "$dst/demo_test.go"
  cp "$scr/checks.out" "$dst/checks.txt"
  python3 - "$dst" "$id" "$p" "$x" "$caught" "$dir" <<'PY'
import sys,json,re
dst,id_,p,x,caught,d=sys.argv[1:7]
notes=open('/tmp/seed/%s.out/NOTES.md'%p).read()
meta={"id":id_,"breaks_property":p[:3].upper(),"origin":"independent sub-agent given only the property text and a scratch worktree",
 "demo_package_dir":d,
 "confirmed":{"build_with_change":"ok","existing_suite_with_change":"ok","demo_with_change":"fails","demo_without_change":"passes","how":"tools/confirm_seed.sh %s %s (scratch copy of /repo HEAD, removed afterwards)"%(p,x)},
 "caught_by":caught.split(),"source_letter":x,
 "needs_to_manifest":"see notes","notes":notes}
json.dump(meta,open(dst+'/meta.json','w'),indent=1)
PY
fi
rm -rf "$scr"

package websocket

import (
	"sync"
	"time"

	hwebsocket "github.com/aukilabs/hagall-common/websocket"
	"github.com/aukilabs/hagall/models"
	"github.com/aukilabs/hagall/modules"
)

// recSender records what a handler sends to one connection.
type recSender struct {
	mu   sync.Mutex
	sent []hwebsocket.ProtoMsg
	msgs []hwebsocket.Msg
}

func (r *recSender) Send(m hwebsocket.ProtoMsg) { r.mu.Lock(); r.sent = append(r.sent, m); r.mu.Unlock() }
func (r *recSender) SendMsg(m hwebsocket.Msg)   { r.mu.Lock(); r.msgs = append(r.msgs, m); r.mu.Unlock() }
func (r *recSender) count() int                 { r.mu.Lock(); defer r.mu.Unlock(); return len(r.sent) + len(r.msgs) }
func (r *recSender) reset()                     { r.mu.Lock(); r.sent, r.msgs = nil, nil; r.mu.Unlock() }

func verifHandler(ss *models.SessionStore, mods ...modules.Module) *RealtimeHandler {
	return &RealtimeHandler{FrameDuration: time.Hour, Sessions: ss, Modules: mods}
}

func verifMsg(p hwebsocket.ProtoMsg) hwebsocket.Msg {
	m, err := hwebsocket.MsgFromProto(p)
	if err != nil {
		panic(err)
	}
	return m
}

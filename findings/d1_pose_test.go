package websocket

import (
	"context"
	"testing"

	"github.com/aukilabs/hagall-common/messages/hagallpb"
	"github.com/aukilabs/hagall/models"
	"google.golang.org/protobuf/types/known/timestamppb"
)

// D1 (C08/C11): a pose update that carries no pose must be dropped without any effect.
func TestVerifD1PoseUpdateWithoutPose(t *testing.T) {
	ss := &models.SessionStore{}
	h := verifHandler(ss)
	r := &recSender{}
	ctx := context.Background()
	if err := h.HandleParticipantJoin(ctx, func() {}, r, verifMsg(&hagallpb.ParticipantJoinRequest{Type: hagallpb.MsgType_MSG_TYPE_PARTICIPANT_JOIN_REQUEST, Timestamp: timestamppb.Now(), RequestId: 1})); err != nil {
		t.Fatal(err)
	}
	if err := h.HandleEntityAdd(ctx, r, verifMsg(&hagallpb.EntityAddRequest{Type: hagallpb.MsgType_MSG_TYPE_ENTITY_ADD_REQUEST, Timestamp: timestamppb.Now(), RequestId: 2, Pose: &hagallpb.Pose{Px: 1}})); err != nil {
		t.Fatal(err)
	}
	defer func() {
		if p := recover(); p != nil {
			t.Fatalf("pose update without a pose panicked: %v", p)
		}
	}()
	err := h.HandleEntityUpdatePose(ctx, verifMsg(&hagallpb.EntityUpdatePose{Type: hagallpb.MsgType_MSG_TYPE_ENTITY_UPDATE_POSE, Timestamp: timestamppb.Now(), EntityId: 1}))
	if err != nil {
		t.Fatalf("unexpected error %v", err)
	}
	e, _ := h.currentSession.EntityByID(1)
	if e.Pose().PX != 1 {
		t.Fatalf("pose changed by an update without a pose: %+v", e.Pose())
	}
}

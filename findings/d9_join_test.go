package websocket

import (
	"context"
	"testing"

	"github.com/aukilabs/hagall-common/messages/hagallpb"
	"github.com/aukilabs/hagall/models"
	"google.golang.org/protobuf/types/known/timestamppb"
)

// D9 (C04): a join that is refused with NOT_FOUND changes nothing.
func TestVerifD9RefusedJoinChangesNothing(t *testing.T) {
	ss := &models.SessionStore{}
	a, b := verifHandler(ss), verifHandler(ss)
	ra, rb := &recSender{}, &recSender{}
	ctx := context.Background()
	now := timestamppb.Now
	must := func(err error) {
		if err != nil {
			t.Fatal(err)
		}
	}
	must(a.HandleParticipantJoin(ctx, func() {}, ra, verifMsg(&hagallpb.ParticipantJoinRequest{Type: hagallpb.MsgType_MSG_TYPE_PARTICIPANT_JOIN_REQUEST, Timestamp: now(), RequestId: 1})))
	sid := ss.GlobalSessionID(a.currentSession.ID)
	must(b.HandleParticipantJoin(ctx, func() {}, rb, verifMsg(&hagallpb.ParticipantJoinRequest{Type: hagallpb.MsgType_MSG_TYPE_PARTICIPANT_JOIN_REQUEST, Timestamp: now(), RequestId: 1, SessionId: sid})))
	session := b.currentSession
	ra.reset()
	rb.reset()
	must(b.HandleParticipantJoin(ctx, func() {}, rb, verifMsg(&hagallpb.ParticipantJoinRequest{Type: hagallpb.MsgType_MSG_TYPE_PARTICIPANT_JOIN_REQUEST, Timestamp: now(), RequestId: 7, SessionId: "no-such-session"})))
	if len(rb.sent) != 1 {
		t.Fatalf("expected exactly one answer, got %d", len(rb.sent))
	}
	er, ok := rb.sent[0].(*hagallpb.ErrorResponse)
	if !ok || er.Code != hagallpb.ErrorCode_ERROR_CODE_NOT_FOUND || er.RequestId != 7 {
		t.Fatalf("expected NOT_FOUND for request 7, got %v", rb.sent[0])
	}
	if b.currentSession != session {
		t.Fatalf("a refused join removed the requester from its session")
	}
	if n := ra.count(); n != 0 {
		t.Fatalf("the other member received %d message(s) because of a refused join", n)
	}
	if session.ParticipantCount() != 2 {
		t.Fatalf("participant count changed to %d", session.ParticipantCount())
	}
}

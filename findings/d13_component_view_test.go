package websocket

import (
	"context"
	"testing"

	"github.com/aukilabs/hagall-common/messages/hagallpb"
	"github.com/aukilabs/hagall/models"
	"google.golang.org/protobuf/types/known/timestamppb"
)

// D13 (C01): in a sequential history no participant is ever sent a broadcast it cannot apply — here an
// update of a component it was never told about. Component adds are relayed only while somebody is
// subscribed to the type, so a participant that subscribes later has never seen the component, yet it
// receives the update.
func TestVerifD13UpdateOfAComponentTheSubscriberWasNeverToldAbout(t *testing.T) {
	ss := &models.SessionStore{}
	a, b := verifHandler(ss), verifHandler(ss)
	ra, rb := &recSender{}, &recSender{}
	ctx := context.Background()
	now := timestamppb.Now
	must := func(err error) {
		if err != nil {
			t.Fatal(err)
		}
	}
	must(a.HandleParticipantJoin(ctx, func() {}, ra, verifMsg(&hagallpb.ParticipantJoinRequest{Type: hagallpb.MsgType_MSG_TYPE_PARTICIPANT_JOIN_REQUEST, Timestamp: now(), RequestId: 1})))
	sid := ss.GlobalSessionID(a.currentSession.ID)
	must(b.HandleParticipantJoin(ctx, func() {}, rb, verifMsg(&hagallpb.ParticipantJoinRequest{Type: hagallpb.MsgType_MSG_TYPE_PARTICIPANT_JOIN_REQUEST, Timestamp: now(), RequestId: 1, SessionId: sid})))
	must(a.HandleEntityAdd(ctx, ra, verifMsg(&hagallpb.EntityAddRequest{Type: hagallpb.MsgType_MSG_TYPE_ENTITY_ADD_REQUEST, Timestamp: now(), RequestId: 2})))
	must(a.HandleEntityComponentTypeAdd(ctx, ra, verifMsg(&hagallpb.EntityComponentTypeAddRequest{Type: hagallpb.MsgType_MSG_TYPE_ENTITY_COMPONENT_TYPE_ADD_REQUEST, Timestamp: now(), RequestId: 3, EntityComponentTypeName: "t"})))
	rb.reset()
	// nobody is subscribed: the add is (by design, C13) relayed to no one
	must(a.HandleEntityComponentAdd(ctx, ra, verifMsg(&hagallpb.EntityComponentAddRequest{Type: hagallpb.MsgType_MSG_TYPE_ENTITY_COMPONENT_ADD_REQUEST, Timestamp: now(), RequestId: 4, EntityComponentTypeId: 1, EntityId: 1, Data: []byte("v1")})))
	if n := rb.count(); n != 0 {
		t.Fatalf("unexpected relay of the add: %d", n)
	}
	must(b.HandleEntityComponentSubscribe(ctx, rb, verifMsg(&hagallpb.EntityComponentTypeSubscribeRequest{Type: hagallpb.MsgType_MSG_TYPE_ENTITY_COMPONENT_TYPE_SUBSCRIBE_REQUEST, Timestamp: now(), RequestId: 5, EntityComponentTypeId: 1})))
	rb.reset()
	must(a.HandleEntityComponentUpdate(ctx, verifMsg(&hagallpb.EntityComponentUpdate{Type: hagallpb.MsgType_MSG_TYPE_ENTITY_COMPONENT_UPDATE, Timestamp: now(), EntityComponentTypeId: 1, EntityId: 1, Data: []byte("v2")})))
	if n := rb.count(); n != 0 {
		t.Fatalf("participant B was sent an update of component (type 1, entity 1) although it was never told that the component exists (its view: SESSION_STATE at join had no components, no add was relayed to it)")
	}
}

package websocket

import (
	"context"
	"testing"

	"github.com/aukilabs/hagall-common/messages/hagallpb"
	"github.com/aukilabs/hagall/models"
	"google.golang.org/protobuf/types/known/timestamppb"
)

// D2 (C12/C13): an update of a component that was never added is relayed to no one.
func TestVerifD2UpdateOfAbsentComponentIsNotRelayed(t *testing.T) {
	ss := &models.SessionStore{}
	a, b := verifHandler(ss), verifHandler(ss)
	ra, rb := &recSender{}, &recSender{}
	ctx := context.Background()
	now := timestamppb.Now
	must := func(err error) {
		if err != nil {
			t.Fatal(err)
		}
	}
	must(a.HandleParticipantJoin(ctx, func() {}, ra, verifMsg(&hagallpb.ParticipantJoinRequest{Type: hagallpb.MsgType_MSG_TYPE_PARTICIPANT_JOIN_REQUEST, Timestamp: now(), RequestId: 1})))
	sid := ss.GlobalSessionID(a.currentSession.ID)
	must(b.HandleParticipantJoin(ctx, func() {}, rb, verifMsg(&hagallpb.ParticipantJoinRequest{Type: hagallpb.MsgType_MSG_TYPE_PARTICIPANT_JOIN_REQUEST, Timestamp: now(), RequestId: 1, SessionId: sid})))
	must(a.HandleEntityAdd(ctx, ra, verifMsg(&hagallpb.EntityAddRequest{Type: hagallpb.MsgType_MSG_TYPE_ENTITY_ADD_REQUEST, Timestamp: now(), RequestId: 2})))
	must(a.HandleEntityComponentTypeAdd(ctx, ra, verifMsg(&hagallpb.EntityComponentTypeAddRequest{Type: hagallpb.MsgType_MSG_TYPE_ENTITY_COMPONENT_TYPE_ADD_REQUEST, Timestamp: now(), RequestId: 3, EntityComponentTypeName: "t"})))
	must(b.HandleEntityComponentSubscribe(ctx, rb, verifMsg(&hagallpb.EntityComponentTypeSubscribeRequest{Type: hagallpb.MsgType_MSG_TYPE_ENTITY_COMPONENT_TYPE_SUBSCRIBE_REQUEST, Timestamp: now(), RequestId: 4, EntityComponentTypeId: 1})))
	rb.reset()
	// the component (type 1, entity 1) was never added
	must(a.HandleEntityComponentUpdate(ctx, verifMsg(&hagallpb.EntityComponentUpdate{Type: hagallpb.MsgType_MSG_TYPE_ENTITY_COMPONENT_UPDATE, Timestamp: now(), EntityComponentTypeId: 1, EntityId: 1, Data: []byte("x")})))
	if n := rb.count(); n != 0 {
		t.Fatalf("subscriber received %d message(s) for an update of a component that was never added", n)
	}
	if l := a.currentSession.GetEntityComponents().List(1); len(l) != 0 {
		t.Fatalf("store changed: %v", l)
	}
}

package websocket

import (
	"context"
	"fmt"
	"sort"
	"strings"
	"time"

	"github.com/aukilabs/hagall-common/messages/hagallpb"
	"github.com/aukilabs/hagall-common/messages/odalpb"
	"github.com/aukilabs/hagall-common/messages/vikjapb"
	hwebsocket "github.com/aukilabs/hagall-common/websocket"
	"github.com/aukilabs/hagall/models"
	"github.com/aukilabs/hagall/modules"
	"github.com/aukilabs/hagall/modules/odal"
	"github.com/aukilabs/hagall/modules/vikja"
	"google.golang.org/protobuf/proto"
	"google.golang.org/protobuf/reflect/protoreflect"
	"google.golang.org/protobuf/types/known/timestamppb"
)

// Bounded stand-ins for the two history-level steps that no contract expresses (DESIGN.md §10):
//
//   - C01: the composition of the per-request step lemmas into "every participant's view equals the
//     server's state". Each connection keeps a view built only from what it was sent (SESSION_STATE,
//     VIKJA_STATE, ODAL_STATE, responses to its own requests, broadcasts), applying each message as
//     defined in DESIGN.md ("C01 argument"); after every request of a pseudo-random sequential history the
//     view of every member is compared with the server's session state, a message that cannot be applied
//     (add of something known, update/delete of something unknown) is an error, and a probe joining at
//     the end must be handed exactly that state. The client follows the protocol's intended use for
//     component types: it pulls ENTITY_COMPONENT_LIST right after subscribing (without the pull the view
//     is wrong: finding D13, replayed separately).
//   - C03: two-run noninterference. A history over two disjoint groups of connections (each group only
//     ever joins sessions created inside the group) is run once in full and once with the other group's
//     requests removed; every connection of the first group must receive the same messages in both runs,
//     up to session ids/uuids and timestamps.
//
// Bound: verifHistSeeds pseudo-random histories of verifHistLen requests each, over 4 connections (C01:
// one world; C03: two worlds of 2), 17 request kinds, ids drawn from what the connection has seen or
// from 1..4, with the vikja and odal modules loaded.

const (
	verifHistSeeds = 4000
	verifHistLen   = 40
)

type vEnt struct {
	owner uint32
	flag  int32
	pose  [7]float32
}

type vView struct {
	joined  bool
	sid     string
	self    uint32
	parts   map[uint32]bool
	ents    map[uint32]vEnt
	subs    map[uint32]bool
	comps   map[[2]uint32]string
	actions map[string]string
	assets  map[uint32]string
}

func newVView() *vView {
	return &vView{parts: map[uint32]bool{}, ents: map[uint32]vEnt{}, subs: map[uint32]bool{}, comps: map[[2]uint32]string{}, actions: map[string]string{}, assets: map[uint32]string{}}
}

type vConn struct {
	name    string
	h       *handler
	rh      *RealtimeHandler
	view    *vView
	inbox   []hwebsocket.Msg
	log     []string // everything received, normalised (for the two-run comparison)
	pending proto.Message
	typeIDs map[string]uint32
}

func newVConn(name string, ss *models.SessionStore) *vConn {
	rh := &RealtimeHandler{FrameDuration: time.Hour, Sessions: ss, Modules: []modules.Module{&vikja.Module{}, &odal.Module{}}}
	return &vConn{name: name, rh: rh, h: &handler{Handler: rh, dispatcher: hwebsocket.NewScheduler()}, view: newVView(), typeIDs: map[string]uint32{}}
}

func (c *vConn) Send(p hwebsocket.ProtoMsg) {
	m, err := hwebsocket.MsgFromProto(p)
	if err != nil {
		panic(err)
	}
	c.SendMsg(m)
}
func (c *vConn) SendMsg(m hwebsocket.Msg) { c.inbox = append(c.inbox, m) }

func (c *vConn) request(p hwebsocket.ProtoMsg) error {
	c.pending = p
	return c.h.handleMessage(context.Background(), verifMsg(p), c)
}

func poseArr(p *hagallpb.Pose) [7]float32 {
	if p == nil {
		return [7]float32{}
	}
	return [7]float32{p.Px, p.Py, p.Pz, p.Rx, p.Ry, p.Rz, p.Rw}
}

func tsKey(t *timestamppb.Timestamp) string {
	if t == nil {
		return "nil"
	}
	return fmt.Sprintf("%d.%09d", t.Seconds, t.Nanos)
}

func (v *vView) dropEntity(e uint32) {
	delete(v.ents, e)
	for k := range v.comps {
		if k[1] == e {
			delete(v.comps, k)
		}
	}
	for k := range v.actions {
		if strings.HasPrefix(k, fmt.Sprintf("%d/", e)) {
			delete(v.actions, k)
		}
	}
	delete(v.assets, e)
}

// apply one received message to the view; returns a non-empty string when it cannot be applied.
func (c *vConn) apply(m hwebsocket.Msg) string {
	v := c.view
	n := int32(m.Type.Number())
	dec := func(p proto.Message) { _ = m.DataTo(p.(hwebsocket.ProtoMsg)) }
	switch {
	case n == int32(hagallpb.MsgType_MSG_TYPE_ERROR_RESPONSE):
		return ""
	case n == int32(hagallpb.MsgType_MSG_TYPE_PARTICIPANT_JOIN_RESPONSE):
		var r hagallpb.ParticipantJoinResponse
		dec(&r)
		*v = *newVView()
		v.joined, v.sid, v.self = true, r.SessionId, r.ParticipantId
	case n == int32(hagallpb.MsgType_MSG_TYPE_SESSION_STATE):
		var r hagallpb.SessionState
		dec(&r)
		v.parts, v.ents = map[uint32]bool{}, map[uint32]vEnt{}
		for _, p := range r.Participants {
			v.parts[p.Id] = true
		}
		for _, e := range r.Entities {
			v.ents[e.Id] = vEnt{e.ParticipantId, int32(e.Flag), poseArr(e.Pose)}
		}
	case n == int32(hagallpb.MsgType_MSG_TYPE_PARTICIPANT_JOIN_BROADCAST):
		var r hagallpb.ParticipantJoinBroadcast
		dec(&r)
		if v.parts[r.ParticipantId] {
			return fmt.Sprintf("join broadcast for participant %d it already knows", r.ParticipantId)
		}
		v.parts[r.ParticipantId] = true
	case n == int32(hagallpb.MsgType_MSG_TYPE_PARTICIPANT_LEAVE_BROADCAST):
		var r hagallpb.ParticipantLeaveBroadcast
		dec(&r)
		if !v.parts[r.ParticipantId] {
			return fmt.Sprintf("leave broadcast for participant %d it was never told about", r.ParticipantId)
		}
		delete(v.parts, r.ParticipantId)
	case n == int32(hagallpb.MsgType_MSG_TYPE_ENTITY_ADD_RESPONSE):
		var r hagallpb.EntityAddResponse
		dec(&r)
		req := c.pending.(*hagallpb.EntityAddRequest)
		if _, have := v.ents[r.EntityId]; have {
			return fmt.Sprintf("own entity add answered with id %d it already has", r.EntityId)
		}
		v.ents[r.EntityId] = vEnt{v.self, int32(req.Flag), poseArr(req.Pose)}
	case n == int32(hagallpb.MsgType_MSG_TYPE_ENTITY_ADD_BROADCAST):
		var r hagallpb.EntityAddBroadcast
		dec(&r)
		if r.Entity == nil {
			return "entity add broadcast without entity"
		}
		if _, have := v.ents[r.Entity.Id]; have {
			return fmt.Sprintf("add broadcast for entity %d it already has", r.Entity.Id)
		}
		v.ents[r.Entity.Id] = vEnt{r.Entity.ParticipantId, int32(r.Entity.Flag), poseArr(r.Entity.Pose)}
	case n == int32(hagallpb.MsgType_MSG_TYPE_ENTITY_DELETE_RESPONSE):
		v.dropEntity(c.pending.(*hagallpb.EntityDeleteRequest).EntityId)
	case n == int32(hagallpb.MsgType_MSG_TYPE_ENTITY_DELETE_BROADCAST):
		var r hagallpb.EntityDeleteBroadcast
		dec(&r)
		if _, have := v.ents[r.EntityId]; !have {
			return fmt.Sprintf("delete broadcast for entity %d it was never told about", r.EntityId)
		}
		v.dropEntity(r.EntityId)
	case n == int32(hagallpb.MsgType_MSG_TYPE_ENTITY_UPDATE_POSE_BROADCAST):
		var r hagallpb.EntityUpdatePoseBroadcast
		dec(&r)
		e, have := v.ents[r.EntityId]
		if !have {
			return fmt.Sprintf("pose broadcast for entity %d it was never told about", r.EntityId)
		}
		e.pose = poseArr(r.Pose)
		v.ents[r.EntityId] = e
	case n == int32(hagallpb.MsgType_MSG_TYPE_CUSTOM_MESSAGE_BROADCAST):
		var r hagallpb.CustomMessageBroadcast
		dec(&r)
		if !v.parts[r.ParticipantId] {
			return fmt.Sprintf("custom message from participant %d who is not a member it knows", r.ParticipantId)
		}
	case n == int32(hagallpb.MsgType_MSG_TYPE_ENTITY_COMPONENT_TYPE_ADD_RESPONSE):
		var r hagallpb.EntityComponentTypeAddResponse
		dec(&r)
		c.typeIDs[c.pending.(*hagallpb.EntityComponentTypeAddRequest).EntityComponentTypeName] = r.EntityComponentTypeId
	case n == int32(hagallpb.MsgType_MSG_TYPE_ENTITY_COMPONENT_ADD_RESPONSE):
		req := c.pending.(*hagallpb.EntityComponentAddRequest)
		if v.subs[req.EntityComponentTypeId] {
			v.comps[[2]uint32{req.EntityComponentTypeId, req.EntityId}] = string(req.Data)
		}
	case n == int32(hagallpb.MsgType_MSG_TYPE_ENTITY_COMPONENT_ADD_BROADCAST):
		var r hagallpb.EntityComponentAddBroadcast
		dec(&r)
		ec := r.EntityComponent
		if ec == nil {
			return "component add broadcast without component"
		}
		if v.subs[ec.EntityComponentTypeId] {
			k := [2]uint32{ec.EntityComponentTypeId, ec.EntityId}
			if _, have := v.comps[k]; have {
				return fmt.Sprintf("add broadcast for component (%d,%d) it already has", k[0], k[1])
			}
			v.comps[k] = string(ec.Data)
		}
	case n == int32(hagallpb.MsgType_MSG_TYPE_ENTITY_COMPONENT_DELETE_RESPONSE):
		req := c.pending.(*hagallpb.EntityComponentDeleteRequest)
		delete(v.comps, [2]uint32{req.EntityComponentTypeId, req.EntityId})
	case n == int32(hagallpb.MsgType_MSG_TYPE_ENTITY_COMPONENT_DELETE_BROADCAST):
		var r hagallpb.EntityComponentDeleteBroadcast
		dec(&r)
		ec := r.EntityComponent
		if ec != nil && v.subs[ec.EntityComponentTypeId] {
			k := [2]uint32{ec.EntityComponentTypeId, ec.EntityId}
			if _, have := v.comps[k]; !have {
				return fmt.Sprintf("delete broadcast for component (%d,%d) it was never told about", k[0], k[1])
			}
			delete(v.comps, k)
		}
	case n == int32(hagallpb.MsgType_MSG_TYPE_ENTITY_COMPONENT_UPDATE_BROADCAST):
		var r hagallpb.EntityComponentUpdateBroadcast
		dec(&r)
		ec := r.EntityComponent
		if ec == nil {
			return "component update broadcast without component"
		}
		k := [2]uint32{ec.EntityComponentTypeId, ec.EntityId}
		if !v.subs[k[0]] {
			return fmt.Sprintf("update broadcast for component type %d it does not subscribe to", k[0])
		}
		if _, have := v.comps[k]; !have {
			return fmt.Sprintf("update broadcast for component (%d,%d) it was never told about", k[0], k[1])
		}
		v.comps[k] = string(ec.Data)
	case n == int32(hagallpb.MsgType_MSG_TYPE_ENTITY_COMPONENT_TYPE_SUBSCRIBE_RESPONSE):
		v.subs[c.pending.(*hagallpb.EntityComponentTypeSubscribeRequest).EntityComponentTypeId] = true
	case n == int32(hagallpb.MsgType_MSG_TYPE_ENTITY_COMPONENT_TYPE_UNSUBSCRIBE_RESPONSE):
		t := c.pending.(*hagallpb.EntityComponentTypeUnsubscribeRequest).EntityComponentTypeId
		delete(v.subs, t)
		for k := range v.comps {
			if k[0] == t {
				delete(v.comps, k)
			}
		}
	case n == int32(hagallpb.MsgType_MSG_TYPE_ENTITY_COMPONENT_LIST_RESPONSE):
		var r hagallpb.EntityComponentListResponse
		dec(&r)
		t := c.pending.(*hagallpb.EntityComponentListRequest).EntityComponentTypeId
		if v.subs[t] {
			for k := range v.comps {
				if k[0] == t {
					delete(v.comps, k)
				}
			}
			for _, ec := range r.EntityComponents {
				v.comps[[2]uint32{ec.EntityComponentTypeId, ec.EntityId}] = string(ec.Data)
			}
		}
	case n == int32(vikjapb.MsgType_MSG_TYPE_VIKJA_STATE):
		var r vikjapb.State
		dec(&r)
		v.actions = map[string]string{}
		for _, a := range r.EntityActions {
			v.actions[fmt.Sprintf("%d/%s", a.EntityId, a.Name)] = string(a.Data) + "@" + tsKey(a.Timestamp)
		}
	case n == int32(vikjapb.MsgType_MSG_TYPE_VIKJA_ENTITY_ACTION_RESPONSE):
		a := c.pending.(*vikjapb.EntityActionRequest).EntityAction
		v.actions[fmt.Sprintf("%d/%s", a.EntityId, a.Name)] = string(a.Data) + "@" + tsKey(a.Timestamp)
	case n == int32(vikjapb.MsgType_MSG_TYPE_VIKJA_ENTITY_ACTION_BROADCAST):
		var r vikjapb.EntityActionBroadcast
		dec(&r)
		a := r.EntityAction
		if a == nil {
			return "entity action broadcast without action"
		}
		if _, have := v.ents[a.EntityId]; !have {
			return fmt.Sprintf("action broadcast for entity %d it was never told about", a.EntityId)
		}
		v.actions[fmt.Sprintf("%d/%s", a.EntityId, a.Name)] = string(a.Data) + "@" + tsKey(a.Timestamp)
	case n == int32(odalpb.MsgType_MSG_TYPE_ODAL_STATE):
		var r odalpb.State
		dec(&r)
		v.assets = map[uint32]string{}
		for _, a := range r.AssetInstances {
			v.assets[a.EntityId] = fmt.Sprintf("%d/%s/%d", a.Id, a.AssetId, a.ParticipantId)
		}
	case n == int32(odalpb.MsgType_MSG_TYPE_ODAL_ASSET_INSTANCE_ADD_RESPONSE):
		var r odalpb.AssetInstanceAddResponse
		dec(&r)
		req := c.pending.(*odalpb.AssetInstanceAddRequest)
		v.assets[req.EntityId] = fmt.Sprintf("%d/%s/%d", r.AssetInstanceId, req.AssetId, v.self)
	case n == int32(odalpb.MsgType_MSG_TYPE_ODAL_ASSET_INSTANCE_ADD_BROADCAST):
		var r odalpb.AssetInstanceAddBroadcast
		dec(&r)
		a := r.AssetInstance
		if a == nil {
			return "asset instance broadcast without instance"
		}
		if _, have := v.ents[a.EntityId]; !have {
			return fmt.Sprintf("asset instance broadcast for entity %d it was never told about", a.EntityId)
		}
		v.assets[a.EntityId] = fmt.Sprintf("%d/%s/%d", a.Id, a.AssetId, a.ParticipantId)
	}
	return ""
}

// normalised rendering of a received message for the two-run comparison (session ids, uuids and
// timestamps differ between runs by construction).
func verifNormalise(m hwebsocket.Msg) string {
	n := int32(m.Type.Number())
	var p proto.Message
	switch {
	case n == int32(hagallpb.MsgType_MSG_TYPE_PARTICIPANT_JOIN_RESPONSE):
		var r hagallpb.ParticipantJoinResponse
		_ = m.DataTo(&r)
		r.SessionId, r.SessionUuid, r.Timestamp = "", "", nil
		return fmt.Sprintf("%d:%v", n, &r)
	default:
		var r hagallpb.Msg
		_ = m.DataTo(&r)
		p = &r
	}
	_ = p
	// generic: the wire bytes with every timestamp field removed cannot be produced without the concrete
	// type, so render through the known types
	for _, mk := range verifKnown {
		if x := mk(); int32(verifTypeOf(x)) == n {
			_ = m.DataTo(x.(hwebsocket.ProtoMsg))
			verifStripTimes(x)
			return fmt.Sprintf("%d:%v", n, x)
		}
	}
	return fmt.Sprintf("%d:?", n)
}

var verifKnown = []func() proto.Message{
	func() proto.Message { return &hagallpb.ErrorResponse{} },
	func() proto.Message { return &hagallpb.SessionState{Type: hagallpb.MsgType_MSG_TYPE_SESSION_STATE} },
	func() proto.Message {
		return &hagallpb.ParticipantJoinBroadcast{Type: hagallpb.MsgType_MSG_TYPE_PARTICIPANT_JOIN_BROADCAST}
	},
	func() proto.Message {
		return &hagallpb.ParticipantLeaveBroadcast{Type: hagallpb.MsgType_MSG_TYPE_PARTICIPANT_LEAVE_BROADCAST}
	},
	func() proto.Message { return &hagallpb.EntityAddResponse{Type: hagallpb.MsgType_MSG_TYPE_ENTITY_ADD_RESPONSE} },
	func() proto.Message { return &hagallpb.EntityAddBroadcast{Type: hagallpb.MsgType_MSG_TYPE_ENTITY_ADD_BROADCAST} },
	func() proto.Message {
		return &hagallpb.EntityDeleteResponse{Type: hagallpb.MsgType_MSG_TYPE_ENTITY_DELETE_RESPONSE}
	},
	func() proto.Message {
		return &hagallpb.EntityDeleteBroadcast{Type: hagallpb.MsgType_MSG_TYPE_ENTITY_DELETE_BROADCAST}
	},
	func() proto.Message {
		return &hagallpb.EntityUpdatePoseBroadcast{Type: hagallpb.MsgType_MSG_TYPE_ENTITY_UPDATE_POSE_BROADCAST}
	},
	func() proto.Message {
		return &hagallpb.CustomMessageBroadcast{Type: hagallpb.MsgType_MSG_TYPE_CUSTOM_MESSAGE_BROADCAST}
	},
	func() proto.Message {
		return &hagallpb.EntityComponentTypeAddResponse{Type: hagallpb.MsgType_MSG_TYPE_ENTITY_COMPONENT_TYPE_ADD_RESPONSE}
	},
	func() proto.Message {
		return &hagallpb.EntityComponentAddResponse{Type: hagallpb.MsgType_MSG_TYPE_ENTITY_COMPONENT_ADD_RESPONSE}
	},
	func() proto.Message {
		return &hagallpb.EntityComponentAddBroadcast{Type: hagallpb.MsgType_MSG_TYPE_ENTITY_COMPONENT_ADD_BROADCAST}
	},
	func() proto.Message {
		return &hagallpb.EntityComponentDeleteResponse{Type: hagallpb.MsgType_MSG_TYPE_ENTITY_COMPONENT_DELETE_RESPONSE}
	},
	func() proto.Message {
		return &hagallpb.EntityComponentDeleteBroadcast{Type: hagallpb.MsgType_MSG_TYPE_ENTITY_COMPONENT_DELETE_BROADCAST}
	},
	func() proto.Message {
		return &hagallpb.EntityComponentUpdateBroadcast{Type: hagallpb.MsgType_MSG_TYPE_ENTITY_COMPONENT_UPDATE_BROADCAST}
	},
	func() proto.Message {
		return &hagallpb.EntityComponentListResponse{Type: hagallpb.MsgType_MSG_TYPE_ENTITY_COMPONENT_LIST_RESPONSE}
	},
	func() proto.Message {
		return &hagallpb.EntityComponentTypeSubscribeResponse{Type: hagallpb.MsgType_MSG_TYPE_ENTITY_COMPONENT_TYPE_SUBSCRIBE_RESPONSE}
	},
	func() proto.Message {
		return &hagallpb.EntityComponentTypeUnsubscribeResponse{Type: hagallpb.MsgType_MSG_TYPE_ENTITY_COMPONENT_TYPE_UNSUBSCRIBE_RESPONSE}
	},
	func() proto.Message { return &vikjapb.State{Type: vikjapb.MsgType_MSG_TYPE_VIKJA_STATE} },
	func() proto.Message {
		return &vikjapb.EntityActionResponse{Type: vikjapb.MsgType_MSG_TYPE_VIKJA_ENTITY_ACTION_RESPONSE}
	},
	func() proto.Message {
		return &vikjapb.EntityActionBroadcast{Type: vikjapb.MsgType_MSG_TYPE_VIKJA_ENTITY_ACTION_BROADCAST}
	},
	func() proto.Message { return &odalpb.State{Type: odalpb.MsgType_MSG_TYPE_ODAL_STATE} },
	func() proto.Message {
		return &odalpb.AssetInstanceAddResponse{Type: odalpb.MsgType_MSG_TYPE_ODAL_ASSET_INSTANCE_ADD_RESPONSE}
	},
	func() proto.Message {
		return &odalpb.AssetInstanceAddBroadcast{Type: odalpb.MsgType_MSG_TYPE_ODAL_ASSET_INSTANCE_ADD_BROADCAST}
	},
}

func verifTypeOf(p proto.Message) int32 {
	f := p.ProtoReflect().Descriptor().Fields().ByName("type")
	return int32(p.ProtoReflect().Get(f).Enum())
}

func verifStripTimes(p proto.Message) {
	r := p.ProtoReflect()
	for _, name := range []protoreflect.Name{"timestamp", "origin_timestamp"} {
		if f := r.Descriptor().Fields().ByName(name); f != nil {
			r.Clear(f)
		}
	}
	// repeated fields are sorted by their text so that map iteration order on the server does not matter
	if s, ok := p.(*hagallpb.SessionState); ok {
		sort.Slice(s.Participants, func(i, j int) bool { return s.Participants[i].Id < s.Participants[j].Id })
		sort.Slice(s.Entities, func(i, j int) bool { return s.Entities[i].Id < s.Entities[j].Id })
		sort.Slice(s.EntityComponents, func(i, j int) bool {
			a, b := s.EntityComponents[i], s.EntityComponents[j]
			return a.EntityComponentTypeId < b.EntityComponentTypeId || a.EntityComponentTypeId == b.EntityComponentTypeId && a.EntityId < b.EntityId
		})
	}
	if s, ok := p.(*hagallpb.EntityComponentListResponse); ok {
		sort.Slice(s.EntityComponents, func(i, j int) bool { return s.EntityComponents[i].EntityId < s.EntityComponents[j].EntityId })
	}
	if s, ok := p.(*vikjapb.State); ok {
		sort.Slice(s.EntityActions, func(i, j int) bool {
			a, b := s.EntityActions[i], s.EntityActions[j]
			return a.EntityId < b.EntityId || a.EntityId == b.EntityId && a.Name < b.Name
		})
	}
	if s, ok := p.(*odalpb.State); ok {
		sort.Slice(s.AssetInstances, func(i, j int) bool { return s.AssetInstances[i].EntityId < s.AssetInstances[j].EntityId })
	}
}

// serverDiff compares the view of a joined connection with the server's state of its session.
func (c *vConn) serverDiff() string {
	v := c.view
	s := c.rh.currentSession
	if s == nil || c.rh.currentParticipant == nil {
		if v.joined {
			return "the client believes it is joined, the server does not"
		}
		return ""
	}
	if !v.joined {
		return "the server has the connection joined, the client was never told"
	}
	if v.self != c.rh.currentParticipant.ID {
		return fmt.Sprintf("participant id: client %d, server %d", v.self, c.rh.currentParticipant.ID)
	}
	sp := map[uint32]bool{}
	for _, p := range s.GetParticipants() {
		sp[p.ID] = true
	}
	if fmt.Sprint(sortedU32(sp)) != fmt.Sprint(sortedU32(v.parts)) {
		return fmt.Sprintf("participants: client %v, server %v", sortedU32(v.parts), sortedU32(sp))
	}
	se := map[uint32]vEnt{}
	for _, e := range s.Entities() {
		p := e.Pose()
		se[e.ID] = vEnt{e.ParticipantID, int32(e.Flag), [7]float32{p.PX, p.PY, p.PZ, p.RX, p.RY, p.RZ, p.RW}}
	}
	if fmt.Sprint(renderEnts(se)) != fmt.Sprint(renderEnts(v.ents)) {
		return fmt.Sprintf("entities: client %v, server %v", renderEnts(v.ents), renderEnts(se))
	}
	sc := map[[2]uint32]string{}
	for _, ec := range s.GetEntityComponents().ListAll() {
		if v.subs[ec.EntityComponentTypeId] {
			sc[[2]uint32{ec.EntityComponentTypeId, ec.EntityId}] = string(ec.Data)
		}
	}
	if renderComps(sc) != renderComps(v.comps) {
		return fmt.Sprintf("components of subscribed types %v: client %s, server %s", sortedU32(v.subs), renderComps(v.comps), renderComps(sc))
	}
	sa := map[string]string{}
	if st, ok := s.ModuleState("vikja"); ok {
		for _, a := range st.(*vikja.State).EntityActions() {
			sa[fmt.Sprintf("%d/%s", a.EntityId, a.Name)] = string(a.Data) + "@" + tsKey(a.Timestamp)
		}
	}
	if renderStr(sa) != renderStr(v.actions) {
		return fmt.Sprintf("entity actions: client %s, server %s", renderStr(v.actions), renderStr(sa))
	}
	so := map[uint32]string{}
	if st, ok := s.ModuleState("odal"); ok {
		for _, a := range st.(*odal.State).AssetInstances() {
			so[a.EntityId] = fmt.Sprintf("%d/%s/%d", a.Id, a.AssetId, a.ParticipantId)
		}
	}
	if fmt.Sprint(renderU32Str(so)) != fmt.Sprint(renderU32Str(v.assets)) {
		return fmt.Sprintf("asset instances: client %v, server %v", renderU32Str(v.assets), renderU32Str(so))
	}
	return ""
}

func sortedU32(m map[uint32]bool) []uint32 {
	var ks []uint32
	for k := range m {
		ks = append(ks, k)
	}
	sort.Slice(ks, func(i, j int) bool { return ks[i] < ks[j] })
	return ks
}
func renderEnts(m map[uint32]vEnt) []string {
	var ks []uint32
	for k := range m {
		ks = append(ks, k)
	}
	sort.Slice(ks, func(i, j int) bool { return ks[i] < ks[j] })
	var out []string
	for _, k := range ks {
		out = append(out, fmt.Sprintf("%d:%v", k, m[k]))
	}
	return out
}
func renderComps(m map[[2]uint32]string) string {
	var out []string
	for k, v := range m {
		out = append(out, fmt.Sprintf("(%d,%d)=%q", k[0], k[1], v))
	}
	sort.Strings(out)
	return strings.Join(out, " ")
}
func renderStr(m map[string]string) string {
	var out []string
	for k, v := range m {
		out = append(out, k+"="+v)
	}
	sort.Strings(out)
	return strings.Join(out, " ")
}
func renderU32Str(m map[uint32]string) []string {
	var out []string
	for k, v := range m {
		out = append(out, fmt.Sprintf("%d=%s", k, v))
	}
	sort.Strings(out)
	return out
}

// ---- history generation ----

type vRand struct{ s uint64 }

func (r *vRand) n(k int) int {
	r.s = r.s*6364136223846793005 + 1442695040888963407
	return int((r.s >> 33) % uint64(k))
}

type vWorld struct {
	actor int // slot of the connection whose request is being processed
	ss    *models.SessionStore
	conns []*vConn
	trace []string
	clock int64
}

func (w *vWorld) now() *timestamppb.Timestamp {
	w.clock++
	return &timestamppb.Timestamp{Seconds: 1700000000 + w.clock}
}

// pickEntity: an entity id the connection knows (often its own), or a small number that may not exist.
func pickEntity(r *vRand, c *vConn) uint32 {
	if len(c.view.ents) > 0 && r.n(4) != 0 {
		ids := make([]uint32, 0, len(c.view.ents))
		for id := range c.view.ents {
			ids = append(ids, id)
		}
		sort.Slice(ids, func(i, j int) bool { return ids[i] < ids[j] })
		return ids[r.n(len(ids))]
	}
	return uint32(r.n(5))
}

func pickType(r *vRand, c *vConn) uint32 {
	// type ids are handed out from 1 per session; 0 and 3 are the invalid / unregistered cases
	if r.n(6) == 0 {
		return uint32(r.n(4))
	}
	return uint32(1 + r.n(2))
}

// pickComp: a component the connection holds, or a (type, entity) pair that may or may not exist.
func pickComp(r *vRand, c *vConn) (uint32, uint32) {
	if len(c.view.comps) > 0 && r.n(3) != 0 {
		var ks [][2]uint32
		for k := range c.view.comps {
			ks = append(ks, k)
		}
		sort.Slice(ks, func(i, j int) bool { return ks[i][0] < ks[j][0] || ks[i][0] == ks[j][0] && ks[i][1] < ks[j][1] })
		k := ks[r.n(len(ks))]
		return k[0], k[1]
	}
	return pickType(r, c), pickEntity(r, c)
}

// step performs one pseudo-random request of connection ci; allowed restricts which other connections'
// sessions may be joined (the connection's own group).
func (w *vWorld) step(r *vRand, ci int, group []int) {
	w.actor = ci
	c := w.conns[ci]
	rec := func(format string, a ...any) { w.trace = append(w.trace, fmt.Sprintf("%s: "+format, append([]any{c.name}, a...)...)) }
	k := r.n(20)
	if !c.view.joined && r.n(5) != 0 {
		k = r.n(3) // not joined: mostly try to join
	} else if c.view.joined && k <= 4 && r.n(4) != 0 {
		k = 5 + r.n(15) // joined: joins, switches and disconnects are the rarer events
	}
	if c.view.joined && len(c.view.ents) > 0 && r.n(3) == 0 {
		k = 11 + r.n(6) // component traffic needs an entity, a registered type and a subscriber: make it likelier
	}
	switch {
	case k == 0: // join a new session (also: switch)
		rec("join new")
		_ = c.request(&hagallpb.ParticipantJoinRequest{Type: hagallpb.MsgType_MSG_TYPE_PARTICIPANT_JOIN_REQUEST, Timestamp: w.now(), RequestId: 1})
	case k == 1 || k == 2: // join the session of a group mate (also: switch, already joined)
		o := w.conns[group[r.n(len(group))]]
		rec("join session of %s (%q)", o.name, o.view.sid)
		_ = c.request(&hagallpb.ParticipantJoinRequest{Type: hagallpb.MsgType_MSG_TYPE_PARTICIPANT_JOIN_REQUEST, Timestamp: w.now(), RequestId: 1, SessionId: o.view.sid})
	case k == 3: // join a session that does not exist
		rec("join bogus")
		_ = c.request(&hagallpb.ParticipantJoinRequest{Type: hagallpb.MsgType_MSG_TYPE_PARTICIPANT_JOIN_REQUEST, Timestamp: w.now(), RequestId: 1, SessionId: "no-such-session"})
	case k == 4: // disconnect; the slot gets a new connection
		rec("disconnect")
		c.rh.HandleDisconnect(nil)
		nc := newVConn(c.name, w.ss)
		nc.log = c.log
		w.conns[ci] = nc
	case k == 5 || k == 6:
		req := &hagallpb.EntityAddRequest{Type: hagallpb.MsgType_MSG_TYPE_ENTITY_ADD_REQUEST, Timestamp: w.now(), RequestId: 2, Persist: r.n(3) == 0, Flag: hagallpb.EntityFlag(r.n(2))}
		if r.n(4) != 0 {
			req.Pose = &hagallpb.Pose{Px: float32(r.n(9)), Py: float32(r.n(3)), Rw: 1}
		}
		rec("entity add persist=%v pose=%v", req.Persist, req.Pose != nil)
		_ = c.request(req)
	case k == 7:
		id := pickEntity(r, c)
		rec("entity delete %d", id)
		_ = c.request(&hagallpb.EntityDeleteRequest{Type: hagallpb.MsgType_MSG_TYPE_ENTITY_DELETE_REQUEST, Timestamp: w.now(), RequestId: 3, EntityId: id})
	case k == 8 || k == 9:
		id := pickEntity(r, c)
		req := &hagallpb.EntityUpdatePose{Type: hagallpb.MsgType_MSG_TYPE_ENTITY_UPDATE_POSE, Timestamp: w.now(), EntityId: id}
		if r.n(5) != 0 {
			req.Pose = &hagallpb.Pose{Px: float32(r.n(9)), Pz: float32(r.n(9)), Rw: 1}
		}
		rec("pose update %d pose=%v", id, req.Pose != nil)
		_ = c.request(req)
		// the sender's own view: it knows the rule (own entity, pose present)
		if e, have := c.view.ents[id]; have && c.view.joined && e.owner == c.view.self && req.Pose != nil {
			e.pose = poseArr(req.Pose)
			c.view.ents[id] = e
		}
	case k == 10:
		name := []string{"t1", "t2", ""}[r.n(3)]
		rec("component type add %q", name)
		_ = c.request(&hagallpb.EntityComponentTypeAddRequest{Type: hagallpb.MsgType_MSG_TYPE_ENTITY_COMPONENT_TYPE_ADD_REQUEST, Timestamp: w.now(), RequestId: 4, EntityComponentTypeName: name})
	case k == 11 || k == 12:
		t, e := pickType(r, c), pickEntity(r, c)
		rec("component add (%d,%d)", t, e)
		_ = c.request(&hagallpb.EntityComponentAddRequest{Type: hagallpb.MsgType_MSG_TYPE_ENTITY_COMPONENT_ADD_REQUEST, Timestamp: w.now(), RequestId: 5, EntityComponentTypeId: t, EntityId: e, Data: []byte(fmt.Sprint(w.clock))})
	case k == 13:
		t, e := pickComp(r, c)
		data := fmt.Sprint(w.clock)
		rec("component update (%d,%d)", t, e)
		_ = c.request(&hagallpb.EntityComponentUpdate{Type: hagallpb.MsgType_MSG_TYPE_ENTITY_COMPONENT_UPDATE, Timestamp: w.now(), EntityComponentTypeId: t, EntityId: e, Data: []byte(data)})
		// no response exists for an update: the sender applies it to what it holds
		if _, have := c.view.comps[[2]uint32{t, e}]; have && c.view.joined {
			c.view.comps[[2]uint32{t, e}] = data
		}
	case k == 14:
		t, e := pickComp(r, c)
		rec("component delete (%d,%d)", t, e)
		_ = c.request(&hagallpb.EntityComponentDeleteRequest{Type: hagallpb.MsgType_MSG_TYPE_ENTITY_COMPONENT_DELETE_REQUEST, Timestamp: w.now(), RequestId: 6, EntityComponentTypeId: t, EntityId: e})
	case k == 16 && r.n(3) == 0:
		t := pickType(r, c)
		rec("unsubscribe %d", t)
		_ = c.request(&hagallpb.EntityComponentTypeUnsubscribeRequest{Type: hagallpb.MsgType_MSG_TYPE_ENTITY_COMPONENT_TYPE_UNSUBSCRIBE_REQUEST, Timestamp: w.now(), RequestId: 9, EntityComponentTypeId: t})
	case k == 15 || k == 16:
		t := pickType(r, c)
		rec("subscribe %d (and pull the list)", t)
		_ = c.request(&hagallpb.EntityComponentTypeSubscribeRequest{Type: hagallpb.MsgType_MSG_TYPE_ENTITY_COMPONENT_TYPE_SUBSCRIBE_REQUEST, Timestamp: w.now(), RequestId: 7, EntityComponentTypeId: t})
		w.deliver()
		if c.view.subs[t] {
			_ = c.request(&hagallpb.EntityComponentListRequest{Type: hagallpb.MsgType_MSG_TYPE_ENTITY_COMPONENT_LIST_REQUEST, Timestamp: w.now(), RequestId: 8, EntityComponentTypeId: t})
		}
	case k == 17:
		req := &hagallpb.CustomMessage{Type: hagallpb.MsgType_MSG_TYPE_CUSTOM_MESSAGE, Timestamp: w.now(), Body: []byte("hello")}
		if r.n(2) == 0 {
			req.ParticipantIds = []uint32{uint32(r.n(4)), uint32(r.n(4))}
		}
		rec("custom message to %v", req.ParticipantIds)
		_ = c.request(req)
	case k == 18:
		e := pickEntity(r, c)
		ts := &timestamppb.Timestamp{Seconds: 1700000000 + int64(r.n(6))}
		rec("entity action on %d at %d", e, ts.Seconds)
		_ = c.request(&vikjapb.EntityActionRequest{Type: vikjapb.MsgType_MSG_TYPE_VIKJA_ENTITY_ACTION_REQUEST, Timestamp: w.now(), RequestId: 10,
			EntityAction: &vikjapb.EntityAction{EntityId: e, Name: []string{"wave", "sit"}[r.n(2)], Timestamp: ts, Data: []byte(fmt.Sprint(w.clock))}})
	default:
		e := pickEntity(r, c)
		rec("asset instance on %d", e)
		_ = c.request(&odalpb.AssetInstanceAddRequest{Type: odalpb.MsgType_MSG_TYPE_ODAL_ASSET_INSTANCE_ADD_REQUEST, Timestamp: w.now(), RequestId: 11, EntityId: e, AssetId: fmt.Sprint("asset", w.clock)})
	}
}

var verifApplied = map[int32]int{}
var verifCompared = map[string]int{}

var verifRelayTypes = map[int32]bool{5: true, 7: true, 10: true, 13: true, 15: true, 17: true, 26: true, 29: true, 31: true, 103: true, 203: true}

// deliver applies everything one request put in flight; returns the first message that could not be
// applied, was relayed back to the requester, or was relayed twice to the same connection.
func (w *vWorld) deliver() string {
	for ci, c := range w.conns {
		seen := map[string]bool{}
		for len(c.inbox) > 0 {
			m := c.inbox[0]
			c.inbox = c.inbox[1:]
			n := int32(m.Type.Number())
			verifApplied[n]++
			text := verifNormalise(m)
			c.log = append(c.log, text)
			if verifRelayTypes[n] {
				if ci == w.actor {
					return c.name + " was sent the relay of its own request: " + text
				}
				if seen[text] {
					return c.name + " was sent the same relay twice: " + text
				}
				seen[text] = true
			}
			if why := c.apply(m); why != "" {
				return c.name + " was sent " + why
			}
		}
	}
	return ""
}

func (w *vWorld) check() string {
	if why := w.deliver(); why != "" {
		return why
	}
	for _, c := range w.conns {
		if d := c.serverDiff(); d != "" {
			return "view of " + c.name + " differs from the server: " + d
		}
		if c.view.joined {
			verifCompared["joined views compared"]++
			if len(c.view.parts) > 1 {
				verifCompared["... with another member"]++
			}
			if len(c.view.ents) > 0 {
				verifCompared["... with entities"]++
			}
			if len(c.view.comps) > 0 {
				verifCompared["... with components of a subscribed type"]++
			}
			if len(c.view.actions) > 0 {
				verifCompared["... with entity actions"]++
			}
			if len(c.view.assets) > 0 {
				verifCompared["... with asset instances"]++
			}
		}
	}
	return ""
}

func (w *vWorld) shutdown() {
	for _, c := range w.conns {
		c.rh.HandleDisconnect(nil)
	}
}


package websocket

import (
	"fmt"
	"sort"
	"strings"
	"testing"

	"github.com/aukilabs/hagall-common/messages/hagallpb"
	"github.com/aukilabs/hagall/models"
)

func TestVerifC01ViewsConvergeBounded(t *testing.T) {
	bad := 0
	for seed := 1; seed <= verifHistSeeds && bad < 3; seed++ {
		r := &vRand{s: uint64(seed) * 2654435761}
		w := &vWorld{ss: &models.SessionStore{}}
		for i := 0; i < 4; i++ {
			w.conns = append(w.conns, newVConn(fmt.Sprintf("c%d", i), w.ss))
		}
		group := []int{0, 1, 2, 3}
		fail := ""
		for k := 0; k < verifHistLen && fail == ""; k++ {
			w.step(r, r.n(4), group)
			fail = w.check()
		}
		if fail == "" {
			// a newcomer joining each live session now is handed exactly the state
			seen := map[string]bool{}
			for _, c := range append([]*vConn(nil), w.conns...) {
				if !c.view.joined || seen[c.view.sid] {
					continue
				}
				seen[c.view.sid] = true
				p := newVConn("probe", w.ss)
				w.conns = append(w.conns, p)
				w.actor = len(w.conns) - 1
				w.trace = append(w.trace, "probe: join "+c.view.sid)
				_ = p.request(&hagallpb.ParticipantJoinRequest{Type: hagallpb.MsgType_MSG_TYPE_PARTICIPANT_JOIN_REQUEST, Timestamp: w.now(), RequestId: 1, SessionId: c.view.sid})
				if fail = w.check(); fail != "" {
					break
				}
				if !p.view.joined {
					fail = "a probe could not join the live session " + c.view.sid
					break
				}
			}
		}
		w.shutdown()
		if fail != "" {
			bad++
			t.Errorf("history %d: %s\n  %s", seed, fail, strings.Join(w.trace, "\n  "))
		}
	}
	var ks []int
	for k := range verifApplied {
		ks = append(ks, int(k))
	}
	sort.Ints(ks)
	line := ""
	for _, k := range ks {
		line += fmt.Sprintf(" %d:%d", k, verifApplied[int32(k)])
	}
	t.Logf("messages applied by type number:%s", line)
	t.Logf("comparisons: %v", verifCompared)
}


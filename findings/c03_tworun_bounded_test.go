package websocket

import (
	"fmt"
	"sort"
	"strings"
	"testing"

	"github.com/aukilabs/hagall-common/messages/hagallpb"
	"github.com/aukilabs/hagall/models"
)

func verifCanonDeletes(log []string) []string {
	out := append([]string(nil), log...)
	pre := fmt.Sprintf("%d:", int32(hagallpb.MsgType_MSG_TYPE_ENTITY_DELETE_BROADCAST))
	for i := 0; i < len(out); {
		j := i
		for j < len(out) && strings.HasPrefix(out[j], pre) {
			j++
		}
		if j > i+1 {
			sort.Strings(out[i:j])
		}
		if j == i {
			j++
		}
		i = j
	}
	return out
}

func TestVerifC03TwoRunIsolationBounded(t *testing.T) {
	bad := 0
	for seed := 1; seed <= verifHistSeeds/2 && bad < 3; seed++ {
		// the schedule: which connection acts at each step, and the per-connection random streams
		sched := &vRand{s: uint64(seed) * 40503}
		order := make([]int, 2*verifHistLen)
		for i := range order {
			order[i] = sched.n(4)
		}
		run := func(only map[int]bool) (*vWorld, string) {
			w := &vWorld{ss: &models.SessionStore{}}
			rs := make([]*vRand, 4)
			for i := 0; i < 4; i++ {
				w.conns = append(w.conns, newVConn(fmt.Sprintf("c%d", i), w.ss))
				rs[i] = &vRand{s: uint64(seed)*977 + uint64(i)*7919}
			}
			clocks := make([]int64, 4)
			for _, ci := range order {
				if !only[ci] {
					continue
				}
				group := []int{0, 1}
				if ci >= 2 {
					group = []int{2, 3}
				}
				// per-connection clock so that request contents do not depend on the other group's activity
				w.clock = clocks[ci]
				w.step(rs[ci], ci, group)
				clocks[ci] = w.clock
				if why := w.check(); why != "" {
					return w, why
				}
			}
			return w, ""
		}
		both, why1 := run(map[int]bool{0: true, 1: true, 2: true, 3: true})
		alone, why2 := run(map[int]bool{0: true, 1: true})
		fail := why1
		if fail == "" {
			fail = why2
		}
		if fail == "" {
			for i := 0; i < 2; i++ {
				// the delete relays caused by one departure come in map-iteration order: compare them as a set
				a, b := verifCanonDeletes(both.conns[i].log), verifCanonDeletes(alone.conns[i].log)
				if strings.Join(a, "\n") != strings.Join(b, "\n") {
					k := 0
					for k < len(a) && k < len(b) && a[k] == b[k] {
						k++
					}
					get := func(x []string) string {
						if k < len(x) {
							return x[k]
						}
						return "(nothing)"
					}
					fail = fmt.Sprintf("connection c%d receives different messages when the other sessions' traffic is removed: message %d is %s with it and %s without", i, k+1, get(a), get(b))
					break
				}
			}
		}
		both.shutdown()
		alone.shutdown()
		if fail != "" {
			bad++
			t.Errorf("history %d: %s\n  %s", seed, fail, strings.Join(both.trace, "\n  "))
		}
	}
}

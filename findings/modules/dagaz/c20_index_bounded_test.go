package dagaz

import (
	"fmt"
	"math"
	"testing"
)

// Bounded stand-in for the index-completeness clause of C20 (the grid's floating-point index arithmetic is
// outside the contracts): "every stored plane is registered in every grid cell its footprint overlaps, so a
// vertical ray through a stored plane finds a plane". Checked after every insert of every sequence of the
// bounded family below, on the real RegularGrid.
//
// Bound: resolution-1 grid created 1x1 at the origin; horizontal quads (normal +y, y = 0) with centre
// coordinates from verifC20Centres (each axis) and square half-extents from verifC20Extents; all sequences of
// length 1 and 2 over that family and the sequences of length 3 whose indices are congruent mod verifC20Stride.

var verifC20Centres = []float32{0.5, 1.7, 3.1, 4.0, 5.0, 6.4}
var verifC20Extents = []float32{0.3, 1.4, 2.6, 5.0}

const verifC20Stride = 7

func verifC20Family() []Quad {
	var qs []Quad
	for _, cx := range verifC20Centres {
		for _, cz := range verifC20Centres {
			for _, e := range verifC20Extents {
				qs = append(qs, Quad{Center: Vector3f{cx, 0, cz}, Extents: Vector3f{e, 0, e}, Normal: Vector3f{0, 1, 0}})
			}
		}
	}
	return qs
}

// verifC20Incomplete returns a description of a (plane, cell) pair where a stored plane's footprint overlaps
// a cell of the grid in which the plane is not registered, or "" if the index is complete.
func verifC20Incomplete(grid *RegularGrid) string {
	seen := map[*Quad]bool{}
	for y := range grid.Grid {
		for x := range grid.Grid[y] {
			for _, q := range grid.Grid[y][x] {
				seen[q] = true
			}
		}
	}
	cell := func(v, min float32) int {
		return int(math.Floor(float64(v-min) / float64(grid.Resolution)))
	}
	for q := range seen {
		lo, hi := Sub(q.Center, q.Extents), Add(q.Center, q.Extents)
		for y := cell(lo.z, grid.Min.z); y <= cell(hi.z, grid.Min.z); y++ {
			for x := cell(lo.x, grid.Min.x); x <= cell(hi.x, grid.Min.x); x++ {
				if y < 0 || y >= len(grid.Grid) || x < 0 || x >= len(grid.Grid[y]) {
					continue // the footprint's far edge lies exactly on the grid boundary
				}
				found := false
				for _, r := range grid.Grid[y][x] {
					if r == q {
						found = true
					}
				}
				if !found {
					return fmt.Sprintf("plane centre (%g,%g) half-extent %g is not registered in cell (row %d, col %d) which its footprint overlaps", q.Center.x, q.Center.z, q.Extents.x, y, x)
				}
			}
		}
	}
	return ""
}

// verifC20RayMiss: a vertical ray through the centre of every stored plane must hit some plane.
func verifC20RayMiss(grid *RegularGrid) string {
	seen := map[*Quad]bool{}
	for y := range grid.Grid {
		for x := range grid.Grid[y] {
			for _, q := range grid.Grid[y][x] {
				seen[q] = true
			}
		}
	}
	for q := range seen {
		hit, _ := grid.IntersectQuad(Ray{From: Vector3f{q.Center.x, q.Center.y + 1, q.Center.z}, To: Vector3f{q.Center.x, q.Center.y - 1, q.Center.z}})
		if hit == nil {
			return fmt.Sprintf("vertical ray through the centre (%g,%g) of a stored plane finds no plane", q.Center.x, q.Center.z)
		}
	}
	return ""
}

func verifC20Run(t *testing.T, seq []Quad) bool {
	grid := NewRegularGrid(1, 1, 1)
	for k, q := range seq {
		grid.InsertQuad(q)
		if why := verifC20Incomplete(grid); why != "" {
			t.Errorf("after insert %d of %v: %s", k+1, verifC20Desc(seq[:k+1]), why)
			return false
		}
		if why := verifC20RayMiss(grid); why != "" {
			t.Errorf("after insert %d of %v: %s", k+1, verifC20Desc(seq[:k+1]), why)
			return false
		}
	}
	return true
}

func verifC20Desc(seq []Quad) string {
	s := ""
	for _, q := range seq {
		s += fmt.Sprintf("[c=(%g,%g) e=%g]", q.Center.x, q.Center.z, q.Extents.x)
	}
	return s
}

func TestVerifC20IndexCompleteBounded(t *testing.T) {
	fam := verifC20Family()
	n, bad := 0, 0
	for i := range fam {
		for j := range fam {
			n++
			if !verifC20Run(t, []Quad{fam[i], fam[j]}) {
				bad++
			}
			if bad > 5 {
				t.Fatalf("stopping after %d failing sequences (%d sequences tried)", bad, n)
			}
		}
	}
	for i := range fam {
		for j := range fam {
			for k := range fam {
				if (i+j+k)%verifC20Stride != 0 {
					continue
				}
				n++
				if !verifC20Run(t, []Quad{fam[i], fam[j], fam[k]}) {
					bad++
				}
				if bad > 5 {
					t.Fatalf("stopping after %d failing sequences (%d sequences tried)", bad, n)
				}
			}
		}
	}
	t.Logf("bounded family: %d quads, %d insert sequences checked", len(fam), n)
}

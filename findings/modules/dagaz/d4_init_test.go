package dagaz

import (
	"testing"
	"time"

	"github.com/aukilabs/hagall/models"
)

// D4 (C20): ground-plane samples are kept for as long as the session lives — a second participant
// joining the session must not discard them.
func TestVerifD4PlanesSurviveAJoin(t *testing.T) {
	s := models.NewSession(1, time.Hour)
	a, b := &Module{}, &Module{}
	a.Init(s, &models.Participant{ID: 1})
	a.state.SpatialPartition.InsertQuad(Quad{Center: Vector3f{0.5, 0, 0.5}, Extents: Vector3f{0.2, 0, 0.2}, Normal: Vector3f{0, 1, 0}})
	before := a.state.SpatialPartition.GetDebugInfo().Plane_count
	if before != 1 {
		t.Fatalf("expected one stored plane, got %d", before)
	}
	b.Init(s, &models.Participant{ID: 2}) // a second participant joins the same session
	after := a.state.SpatialPartition.GetDebugInfo().Plane_count
	if after != before {
		t.Fatalf("stored planes lost when a participant joined: %d -> %d", before, after)
	}
	if b.state != a.state {
		t.Fatalf("participants of one session do not share the ground-plane state")
	}
}

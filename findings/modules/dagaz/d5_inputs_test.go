package dagaz

import (
	"context"
	"math"
	"testing"
	"time"

	"github.com/aukilabs/hagall-common/messages/dagazpb"
	hwebsocket "github.com/aukilabs/hagall-common/websocket"
	"github.com/aukilabs/hagall/models"
	"google.golang.org/protobuf/types/known/timestamppb"
)

type verifSender struct{ sent []hwebsocket.ProtoMsg }

func (r *verifSender) Send(m hwebsocket.ProtoMsg) { r.sent = append(r.sent, m) }
func (r *verifSender) SendMsg(m hwebsocket.Msg)   {}

func verifModule() *Module {
	m := &Module{}
	m.Init(models.NewSession(1, time.Hour), &models.Participant{ID: 1})
	return m
}

func verifMsg(t *testing.T, p hwebsocket.ProtoMsg) hwebsocket.Msg {
	m, err := hwebsocket.MsgFromProto(p)
	if err != nil {
		t.Fatal(err)
	}
	return m
}

func noPanic(t *testing.T, what string, f func()) {
	defer func() {
		if p := recover(); p != nil {
			t.Errorf("%s panicked: %v", what, p)
		}
	}()
	f()
}

// D5a (C08): ground-plane messages whose optional sub-messages are absent must not panic.
func TestVerifD5aMissingSubMessages(t *testing.T) {
	m := verifModule()
	ctx := context.Background()
	noPanic(t, "quad sample without center/extents", func() {
		m.HandleDagazQuadSample(ctx, verifMsg(t, &dagazpb.DagazQuadSample{Type: dagazpb.MsgType_MSG_TYPE_DAGAZ_QUAD_SAMPLE, Timestamp: timestamppb.Now(), Samples: []*dagazpb.Quad{{}}}))
	})
	noPanic(t, "ground plane request without ray", func() {
		m.HandleDagazGetGroundPlane(ctx, &verifSender{}, verifMsg(t, &dagazpb.DagazGetGroundPlaneRequest{Type: dagazpb.MsgType_MSG_TYPE_DAGAZ_GET_GROUND_PLANE_REQUEST, Timestamp: timestamppb.Now(), RequestId: 1}))
	})
	noPanic(t, "region request without min/max", func() {
		m.HandleDagazGetRegion(ctx, &verifSender{}, verifMsg(t, &dagazpb.DagazGetRegionRequest{Type: dagazpb.MsgType_MSG_TYPE_DAGAZ_GET_REGION_REQUEST, Timestamp: timestamppb.Now(), RequestId: 1}))
	})
}

// D5b (C08): non-finite coordinates must not panic.
func TestVerifD5bNonFiniteCoordinates(t *testing.T) {
	m := verifModule()
	ctx := context.Background()
	nan := float32(math.NaN())
	inf := float32(math.Inf(1))
	for _, c := range []float32{nan, inf} {
		c := c
		noPanic(t, "quad sample with a non-finite coordinate", func() {
			m.HandleDagazQuadSample(ctx, verifMsg(t, &dagazpb.DagazQuadSample{Type: dagazpb.MsgType_MSG_TYPE_DAGAZ_QUAD_SAMPLE, Timestamp: timestamppb.Now(),
				Samples: []*dagazpb.Quad{{Center: &dagazpb.Point{X: c, Y: 0, Z: 1}, Extents: &dagazpb.Point{X: 1, Y: 0, Z: 1}}}}))
		})
	}
}

// D5c (C08): a finite ray that starts outside the grid must not panic.
func TestVerifD5cRayFromOutsideTheGrid(t *testing.T) {
	m := verifModule()
	ctx := context.Background()
	m.HandleDagazQuadSample(ctx, verifMsg(t, &dagazpb.DagazQuadSample{Type: dagazpb.MsgType_MSG_TYPE_DAGAZ_QUAD_SAMPLE, Timestamp: timestamppb.Now(),
		Samples: []*dagazpb.Quad{{Center: &dagazpb.Point{X: 0.5, Y: 0, Z: 0.5}, Extents: &dagazpb.Point{X: 0.2, Y: 0, Z: 0.2}}}}))
	noPanic(t, "ground plane request with a ray from outside the grid", func() {
		m.HandleDagazGetGroundPlane(ctx, &verifSender{}, verifMsg(t, &dagazpb.DagazGetGroundPlaneRequest{Type: dagazpb.MsgType_MSG_TYPE_DAGAZ_GET_GROUND_PLANE_REQUEST, Timestamp: timestamppb.Now(), RequestId: 1,
			Ray: &dagazpb.Ray{From: &dagazpb.Point{X: -3, Y: 1, Z: 1}, To: &dagazpb.Point{X: 3, Y: -1, Z: 13}}}))
	})
}

package dagaz

package models

import (
	"sync"

	hwebsocket "github.com/aukilabs/hagall-common/websocket"
)

type recSender struct {
	mu   sync.Mutex
	sent []hwebsocket.ProtoMsg
}

func (r *recSender) Send(m hwebsocket.ProtoMsg) { r.mu.Lock(); r.sent = append(r.sent, m); r.mu.Unlock() }
func (r *recSender) SendMsg(m hwebsocket.Msg)   {}

package models

import (
	"testing"
	"time"

	"github.com/aukilabs/hagall-common/messages/hagallpb"
	"github.com/ethereum/go-ethereum/crypto"
	"google.golang.org/protobuf/proto"
)

// D8a (C18): a ping response whose id was already answered is refused and does not advance the measurement.
func TestVerifD8aPingAnsweredTwice(t *testing.T) {
	key, _ := crypto.GenerateKey()
	r := &recSender{}
	var s SignedLatency
	s.Start(key, r, 7, 3, "uuid", "client", "0xabc")
	first := r.sent[0].(*hagallpb.Response).RequestId
	time.Sleep(time.Millisecond)
	if err := s.OnPing(first); err != nil {
		t.Fatal(err)
	}
	if len(r.sent) != 2 {
		t.Fatalf("expected the second ping request, got %d messages", len(r.sent))
	}
	// replay the first id
	err := s.OnPing(first)
	if err == nil {
		t.Errorf("a ping id that was already answered was accepted again")
	}
	if s.Iteration != 2 {
		t.Errorf("the replayed ping advanced the measurement: %d rounds left instead of 2", s.Iteration)
	}
	if len(r.sent) != 2 {
		t.Errorf("the replayed ping triggered %d further message(s)", len(r.sent)-2)
	}
}

// D8b/c (C18): statistics are self-consistent: 0 <= min <= mean <= max, last is the latency of the final round.
func TestVerifD8bcStatistics(t *testing.T) {
	key, _ := crypto.GenerateKey()
	r := &recSender{}
	var s SignedLatency
	s.Start(key, r, 7, 3, "uuid", "client", "0xabc")
	// craft the measured times directly: rounds of 0us, 50us and (final) 20us
	answer := func(lat time.Duration) {
		id := r.sent[len(r.sent)-1].(*hagallpb.Response).RequestId
		d := s.PingRequests[id]
		d.Start = time.Now().Add(-lat)
		s.PingRequests[id] = d
	}
	for i, lat := range []time.Duration{0, 50 * time.Microsecond, 20 * time.Microsecond} {
		id := r.sent[len(r.sent)-1].(*hagallpb.Response).RequestId
		if i == 0 {
			// a round measured as 0us: End == Start
			d := s.PingRequests[id]
			s.Iteration--
			d.End = d.Start
			s.PingRequests[id] = d
			s.sendPingRequest()
			time.Sleep(2 * time.Millisecond)
			continue
		}
		answer(lat)
		if err := s.OnPing(id); err != nil {
			t.Fatal(err)
		}
		time.Sleep(2 * time.Millisecond)
	}
	resp, ok := r.sent[len(r.sent)-1].(*hagallpb.SignedLatencyResponse)
	if !ok {
		t.Fatalf("no signed latency response, last message %T", r.sent[len(r.sent)-1])
	}
	var d hagallpb.LatencyData
	if err := proto.Unmarshal(resp.Data, &d); err != nil {
		t.Fatal(err)
	}
	if !(0 <= d.Min && d.Min <= d.Mean && d.Mean <= d.Max) {
		t.Errorf("inconsistent statistics: min=%v mean=%v max=%v", d.Min, d.Mean, d.Max)
	}
	if d.Min != 0 {
		t.Errorf("min=%v but one round took 0us", d.Min)
	}
}

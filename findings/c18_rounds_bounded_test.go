package websocket

import (
	"context"
	"sort"
	"testing"

	"github.com/aukilabs/hagall-common/messages/hagallpb"
	"github.com/aukilabs/hagall/models"
	"github.com/ethereum/go-ethereum/common"
	"github.com/ethereum/go-ethereum/crypto"
	"google.golang.org/protobuf/proto"
	"google.golang.org/protobuf/types/known/timestamppb"
)

// Bounded stand-in for assumption A-pingid of C18 (ping ids are taken from the clock; that two pings of one
// measurement never get the same id is not provable from the code): a client that answers every ping as
// soon as it gets it - the fastest a client can be - is driven through complete measurements of 3, 10 and 50
// rounds on the real handlers. Every measurement must issue exactly one new ping per round, all ids
// distinct, and end with exactly one signed report that names exactly those ids, the requested number of
// rounds, the client's wallet, and verifies against the server key.
func TestVerifC18RoundsAndPingIDsBounded(t *testing.T) {
	for rep := 0; rep < 40; rep++ {
		for _, rounds := range []uint32{3, 10, 50} {
			key, err := crypto.GenerateKey()
			if err != nil {
				t.Fatal(err)
			}
			h := verifHandler(&models.SessionStore{})
			h.PrivateKey = key
			ctx := context.Background()
			rec := &recSender{}
			if err := h.HandleParticipantJoin(ctx, func() {}, rec, verifMsg(&hagallpb.ParticipantJoinRequest{Type: hagallpb.MsgType_MSG_TYPE_PARTICIPANT_JOIN_REQUEST, Timestamp: timestamppb.Now(), RequestId: 1})); err != nil {
				t.Fatal(err)
			}
			rec.reset()
			if err := h.HandleSignedLatency(ctx, rec, verifMsg(&hagallpb.SignedLatencyRequest{Type: hagallpb.MsgType_MSG_TYPE_SIGNED_LATENCY_REQUEST, Timestamp: timestamppb.Now(), RequestId: 2, IterationCount: rounds, WalletAddress: "0xabc"})); err != nil {
				t.Fatal(err)
			}
			var issued []uint32
			for r := uint32(0); r < rounds; r++ {
				pings, reports := verifC18Split(rec)
				if len(pings) != int(r)+1 || len(reports) != 0 {
					t.Fatalf("%d rounds, round %d: %d ping requests issued so far (want %d), %d reports (want 0)", rounds, r+1, len(pings), r+1, len(reports))
				}
				id := pings[r].RequestId
				issued = append(issued, id)
				if err := h.HandlePingResponse(ctx, rec, verifMsg(&hagallpb.Response{Type: hagallpb.MsgType_MSG_TYPE_PING_RESPONSE, Timestamp: timestamppb.Now(), RequestId: id})); err != nil {
					t.Fatalf("%d rounds, round %d: answer to ping %d refused: %v", rounds, r+1, id, err)
				}
			}
			pings, reports := verifC18Split(rec)
			if len(pings) != int(rounds) || len(reports) != 1 {
				t.Fatalf("%d rounds: %d ping requests and %d reports at the end (want %d and 1)", rounds, len(pings), len(reports), rounds)
			}
			seen := map[uint32]bool{}
			for _, id := range issued {
				if seen[id] {
					t.Fatalf("%d rounds: ping id %d was issued twice in one measurement", rounds, id)
				}
				seen[id] = true
			}
			res := reports[0]
			var data hagallpb.LatencyData
			if err := proto.Unmarshal(res.Data, &data); err != nil {
				t.Fatal(err)
			}
			got := append([]uint32(nil), data.PingRequestIds...)
			want := append([]uint32(nil), issued...)
			sort.Slice(got, func(i, j int) bool { return got[i] < got[j] })
			sort.Slice(want, func(i, j int) bool { return want[i] < want[j] })
			if len(got) != len(want) {
				t.Fatalf("%d rounds: the report names %d ping ids, %d were issued", rounds, len(got), len(want))
			}
			for i := range got {
				if got[i] != want[i] {
					t.Fatalf("%d rounds: the report names ping ids %v, issued were %v", rounds, got, want)
				}
			}
			if data.IterationCount != rounds || data.WalletAddress != "0xabc" {
				t.Fatalf("%d rounds: report says %d rounds for wallet %q", rounds, data.IterationCount, data.WalletAddress)
			}
			if !(data.Min <= data.Mean && data.Mean <= data.Max && data.Min <= data.P95 && data.P95 <= data.Max && data.Min <= data.Last && data.Last <= data.Max && data.Min >= 0) {
				t.Fatalf("%d rounds: statistics out of order: min %v mean %v p95 %v max %v last %v", rounds, data.Min, data.Mean, data.P95, data.Max, data.Last)
			}
			pub, err := crypto.SigToPub(crypto.Keccak256Hash(res.Data).Bytes(), common.FromHex(res.Signature))
			if err != nil || crypto.PubkeyToAddress(*pub) != crypto.PubkeyToAddress(key.PublicKey) {
				t.Fatalf("%d rounds: the signature does not verify against the server key", rounds)
			}
			h.HandleDisconnect(nil)
		}
	}
}

func verifC18Split(rec *recSender) (pings []*hagallpb.Response, reports []*hagallpb.SignedLatencyResponse) {
	rec.mu.Lock()
	defer rec.mu.Unlock()
	for _, m := range rec.sent {
		switch v := m.(type) {
		case *hagallpb.Response:
			if v.Type == hagallpb.MsgType_MSG_TYPE_PING_REQUEST {
				pings = append(pings, v)
			}
		case *hagallpb.SignedLatencyResponse:
			reports = append(reports, v)
		}
	}
	return
}

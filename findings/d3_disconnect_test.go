package websocket

import (
	"errors"
	"testing"
	"time"
)

// D3 (C08): the connection loop reports failures by sending to disconnectChan (capacity 8), which only
// the loop itself drains. When nine failures are reported before the loop gets to its disconnect case
// (a burst of failing requests), the ninth send blocks the loop forever: the handler never returns, its
// goroutines never end and the participant is never removed.
func TestVerifD3NinthDisconnectDoesNotBlock(t *testing.T) {
	h := &handler{disconnectChan: make(chan error, 8)}
	done := make(chan struct{})
	go func() {
		for i := 0; i < 9; i++ { // nine failing messages handled before the disconnect case is selected
			h.disconnect(errors.New("handling message failed"))
		}
		close(done)
	}()
	select {
	case <-done:
	case <-time.After(2 * time.Second):
		t.Fatalf("the ninth pending disconnect blocks the connection loop (disconnectChan is full and only the loop drains it)")
	}
}

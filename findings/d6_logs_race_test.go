package websocket

import (
	"context"
	"net/http"
	"sync"
	"testing"
	"time"

	hwebsocket "github.com/aukilabs/hagall-common/websocket"
	"github.com/aukilabs/hagall/models"
)

// stubbedHandler lets the logging decorator run without a network connection.
type stubbedHandler struct {
	Handler
	session     *models.Session
	participant *models.Participant
	sessions    *models.SessionStore
}

func (s *stubbedHandler) HandleParticipantJoin(ctx context.Context, handleFrame func(), sender hwebsocket.ResponseSender, msg hwebsocket.Msg) error {
	return nil
}
func (s *stubbedHandler) CurrentParticipant() *models.Participant { return s.participant }
func (s *stubbedHandler) CurrentSession() *models.Session         { return s.session }
func (s *stubbedHandler) GetSessions() *models.SessionStore       { return s.sessions }
func (s *stubbedHandler) GetClientID() string                     { return "c" }
func (s *stubbedHandler) Receiver() hwebsocket.Receiver {
	return func() (hwebsocket.Msg, int, error) { return hwebsocket.Msg{}, 0, nil }
}

// D6 (C09): the logging decorator's session/participant ids are written by the connection's
// handling goroutine while its receiver goroutine reads them. Run with -race.
func TestVerifD6LogsFieldsRace(t *testing.T) {
	ss := &models.SessionStore{}
	session := models.NewSession(1, time.Hour)
	inner := &stubbedHandler{session: session, participant: &models.Participant{ID: 1}, sessions: ss}
	ss.Add(context.Background(), session)
	h := &handlerWithLogs{Handler: inner, counter: map[string]int{}, originalRequest: &http.Request{Header: http.Header{}}}
	receive := h.Receiver()
	var wg sync.WaitGroup
	wg.Add(1)
	go func() { // the receiver goroutine of handler.Handle
		defer wg.Done()
		for i := 0; i < 200; i++ {
			receive()
		}
	}()
	for i := 0; i < 200; i++ { // the connection's handling goroutine
		h.HandleParticipantJoin(context.Background(), func() {}, nil, hwebsocket.Msg{})
	}
	wg.Wait()
}

package main

import (
	"fmt"
	"sort"
	"strings"
	"sync"
)

// Sort is an SMT-LIB sort written out.
type Sort string

const (
	SInt  Sort = "Int"
	SBool Sort = "Bool"
	SReal Sort = "Real"
)

func ArrSort(elem Sort) Sort { return Sort("(Array Int " + string(elem) + ")") }

func (s Sort) Elem() Sort {
	str := string(s)
	if !strings.HasPrefix(str, "(Array Int ") {
		panic("Elem of non-array sort " + str)
	}
	return Sort(str[len("(Array Int ") : len(str)-1])
}

func (s Sort) IsArray() bool { return strings.HasPrefix(string(s), "(Array") }

// Term is an SMT-LIB term with its sort.
type Term struct {
	S    string
	Sort Sort
}

// conjTable remembers the conjuncts of conjunctions built by And, so that assume() can split them.
var conjTable = map[string][]Term{}
var conjMu sync.Mutex

func (t Term) String() string { return t.S }

var (
	TTrue  = Term{"true", SBool}
	TFalse = Term{"false", SBool}
	TZero  = Term{"0", SInt}
)

func IntLit(n int64) Term {
	if n < 0 {
		return Term{fmt.Sprintf("(- %d)", -n), SInt}
	}
	return Term{fmt.Sprintf("%d", n), SInt}
}

func UintLit(n uint64) Term { return Term{fmt.Sprintf("%d", n), SInt} }

func RealLit(s string) Term { return Term{s, SReal} }

func app(sort Sort, op string, args ...Term) Term {
	var b strings.Builder
	b.WriteByte('(')
	b.WriteString(op)
	for _, a := range args {
		b.WriteByte(' ')
		b.WriteString(a.S)
	}
	b.WriteByte(')')
	return Term{b.String(), sort}
}

func And(ts ...Term) Term {
	var xs []Term
	for _, t := range ts {
		if t.S == "true" {
			continue
		}
		if t.S == "false" {
			return TFalse
		}
		xs = append(xs, t)
	}
	if len(xs) == 0 {
		return TTrue
	}
	if len(xs) == 1 {
		return xs[0]
	}
	t := app(SBool, "and", xs...)
	conjMu.Lock()
	conjTable[t.S] = xs
	conjMu.Unlock()
	return t
}

func Or(ts ...Term) Term {
	var xs []Term
	for _, t := range ts {
		if t.S == "false" {
			continue
		}
		if t.S == "true" {
			return TTrue
		}
		xs = append(xs, t)
	}
	if len(xs) == 0 {
		return TFalse
	}
	if len(xs) == 1 {
		return xs[0]
	}
	return app(SBool, "or", xs...)
}

func Not(t Term) Term {
	if t.S == "true" {
		return TFalse
	}
	if t.S == "false" {
		return TTrue
	}
	if strings.HasPrefix(t.S, "(not ") {
		return Term{t.S[5 : len(t.S)-1], SBool}
	}
	return app(SBool, "not", t)
}

func Implies(a, b Term) Term {
	if a.S == "true" {
		return b
	}
	if a.S == "false" || b.S == "true" {
		return TTrue
	}
	t := app(SBool, "=>", a, b)
	implMu.Lock()
	implTable[t.S] = [2]Term{a, b}
	implMu.Unlock()
	return t
}

var implTable = map[string][2]Term{}
var implMu sync.Mutex

func Eq(a, b Term) Term {
	if a.S == b.S {
		return TTrue
	}
	if a.Sort != b.Sort {
		// Int/Real mix: coerce
		if a.Sort == SInt && b.Sort == SReal {
			a = app(SReal, "to_real", a)
		} else if a.Sort == SReal && b.Sort == SInt {
			b = app(SReal, "to_real", b)
		} else {
			panic(fmt.Sprintf("Eq sort mismatch: %s:%s vs %s:%s", a.S, a.Sort, b.S, b.Sort))
		}
	}
	return app(SBool, "=", a, b)
}

func Neq(a, b Term) Term { return Not(Eq(a, b)) }

func Ite(c, a, b Term) Term {
	if c.S == "true" {
		return a
	}
	if c.S == "false" {
		return b
	}
	if a.S == b.S {
		return a
	}
	return app(a.Sort, "ite", c, a, b)
}

func Select(arr, idx Term) Term {
	return app(arr.Sort.Elem(), "select", arr, idx)
}

func Store(arr, idx, v Term) Term {
	if v.Sort != arr.Sort.Elem() {
		if v.Sort == SInt && arr.Sort.Elem() == SReal {
			v = app(SReal, "to_real", v)
		} else {
			panic(fmt.Sprintf("Store sort mismatch: arr %s elem %s val %s:%s", arr.S, arr.Sort.Elem(), v.S, v.Sort))
		}
	}
	return app(arr.Sort, "store", arr, idx, v)
}

func Le(a, b Term) Term  { return app(SBool, "<=", a, b) }
func Lt(a, b Term) Term  { return app(SBool, "<", a, b) }
func Ge(a, b Term) Term  { return app(SBool, ">=", a, b) }
func Gt(a, b Term) Term  { return app(SBool, ">", a, b) }
func Add(a, b Term) Term { return app(a.Sort, "+", a, b) }
func Sub(a, b Term) Term { return app(a.Sort, "-", a, b) }

// Forall builds a quantified formula. vars are (name, sort) pairs.
func Forall(vars []Term, body Term) Term {
	if len(vars) == 0 {
		return body
	}
	var b strings.Builder
	b.WriteString("(forall (")
	for _, v := range vars {
		fmt.Fprintf(&b, "(%s %s)", v.S, v.Sort)
	}
	b.WriteString(") ")
	b.WriteString(body.S)
	b.WriteString(")")
	return Term{b.String(), SBool}
}

func Exists(vars []Term, body Term) Term {
	if len(vars) == 0 {
		return body
	}
	var b strings.Builder
	b.WriteString("(exists (")
	for _, v := range vars {
		fmt.Fprintf(&b, "(%s %s)", v.S, v.Sort)
	}
	b.WriteString(") ")
	b.WriteString(body.S)
	b.WriteString(")")
	return Term{b.String(), SBool}
}

// quoteSym makes s a legal SMT-LIB symbol.
func quoteSym(s string) string {
	simple := true
	for _, c := range s {
		if !(c >= 'a' && c <= 'z' || c >= 'A' && c <= 'Z' || c >= '0' && c <= '9' || c == '_' || c == '.' || c == '!' || c == '$' || c == '@') {
			simple = false
			break
		}
	}
	if simple && len(s) > 0 && !(s[0] >= '0' && s[0] <= '9') {
		return s
	}
	s = strings.ReplaceAll(s, "|", "!")
	s = strings.ReplaceAll(s, "\\", "!")
	return "|" + s + "|"
}

// Decls is the set of SMT declarations accumulated for one verification unit.
type Decls struct {
	consts map[string]Sort   // symbol -> sort
	funs   map[string]string // symbol -> full declaration text
	order  []string
	axioms []string
}

func NewDecls() *Decls {
	return &Decls{consts: map[string]Sort{}, funs: map[string]string{}}
}

func (d *Decls) Const(name string, s Sort) Term {
	q := quoteSym(name)
	if old, ok := d.consts[q]; ok {
		if old != s {
			panic(fmt.Sprintf("const %s redeclared with sort %s (was %s)", q, s, old))
		}
		return Term{q, s}
	}
	d.consts[q] = s
	d.order = append(d.order, fmt.Sprintf("(declare-const %s %s)", q, s))
	return Term{q, s}
}

// Fun declares an uninterpreted function and returns its quoted symbol.
func (d *Decls) Fun(name string, args []Sort, res Sort) string {
	q := quoteSym(name)
	var as []string
	for _, a := range args {
		as = append(as, string(a))
	}
	decl := fmt.Sprintf("(declare-fun %s (%s) %s)", q, strings.Join(as, " "), res)
	if old, ok := d.funs[q]; ok {
		if old != decl {
			panic(fmt.Sprintf("fun %s redeclared: %s vs %s", q, decl, old))
		}
		return q
	}
	d.funs[q] = decl
	d.order = append(d.order, decl)
	return q
}

func (d *Decls) Axiom(t Term) {
	d.axioms = append(d.axioms, t.S)
}

func (d *Decls) Text() string {
	var b strings.Builder
	for _, l := range d.order {
		b.WriteString(l)
		b.WriteByte('\n')
	}
	for _, a := range d.axioms {
		fmt.Fprintf(&b, "(assert %s)\n", a)
	}
	return b.String()
}

func sortedKeys[V any](m map[string]V) []string {
	ks := make([]string, 0, len(m))
	for k := range m {
		ks = append(ks, k)
	}
	sort.Strings(ks)
	return ks
}

// TextQF is Text without the quantified axioms (for the quantifier-free relaxation).
func (d *Decls) TextQF() string {
	var b strings.Builder
	for _, l := range d.order {
		b.WriteString(l)
		b.WriteByte('\n')
	}
	for _, a := range d.axioms {
		if strings.Contains(a, "(forall ") || strings.Contains(a, "(exists ") {
			continue
		}
		fmt.Fprintf(&b, "(assert %s)\n", a)
	}
	return b.String()
}

package main

import (
	"encoding/json"
	"go/ast"
	"os"
	"path/filepath"

	"golang.org/x/tools/go/ssa"
)

// Contracts refer to parameters and source-level locals by name. A pure rename in the code would
// otherwise make a contract unusable (fail closed = a false alarm). props/names.json records, per function
// under contract, the ordered list of (kind, name, type) of its parameters, free variables and named
// locals as of the last --write-expected; when the current list has the same kinds and types position by
// position but different names, the recorded names are accepted as aliases of the current ones.

type nameSig struct {
	Kind string `json:"k"` // param | fv | local | phi
	Name string `json:"n"`
	Type string `json:"t"`
}

func funcNameSig(fn *ssa.Function) []nameSig {
	var out []nameSig
	seen := map[string]bool{}
	add := func(kind, name, typ string) {
		if name == "" || name == "_" || seen[kind+"/"+name+"/"+typ] {
			return
		}
		seen[kind+"/"+name+"/"+typ] = true
		out = append(out, nameSig{kind, name, typ})
	}
	for _, p := range fn.Params {
		add("param", p.Name(), typeName(p.Type()))
	}
	for _, fv := range fn.FreeVars {
		add("fv", fv.Name(), typeName(fv.Type()))
	}
	for _, b := range fn.Blocks {
		for _, in := range b.Instrs {
			switch n := in.(type) {
			case *ssa.DebugRef:
				if id, ok := n.Expr.(*ast.Ident); ok {
					add("local", id.Name, typeName(n.X.Type()))
				}
			case *ssa.Phi:
				if n.Comment != "" {
					add("phi", n.Comment, typeName(n.Type()))
				}
			}
		}
	}
	return out
}

// loadNameAliases computes, for every function whose recorded signature differs from the current one by
// names only, the map current name -> recorded names.
func (e *Engine) loadNameAliases(verifDir string) {
	e.nameAliases = map[string]map[string][]string{}
	data, err := os.ReadFile(filepath.Join(verifDir, "props", "names.json"))
	if err != nil {
		return
	}
	var rec map[string][]nameSig
	if json.Unmarshal(data, &rec) != nil {
		return
	}
	for key, old := range rec {
		fn := e.funcs[key]
		if fn == nil {
			continue
		}
		cur := funcNameSig(fn)
		if debugNames && len(cur) != len(old) {
			println("names: length differs for", key, len(cur), len(old))
		}
		if len(cur) != len(old) {
			continue
		}
		same := true
		for i := range cur {
			if cur[i].Kind != old[i].Kind || cur[i].Type != old[i].Type {
				same = false
				break
			}
		}
		if !same {
			continue
		}
		curNames := map[string]bool{}
		for _, c := range cur {
			curNames[c.Kind+"/"+c.Name] = true
		}
		for i := range cur {
			if cur[i].Name != old[i].Name && !curNames[cur[i].Kind+"/"+old[i].Name] {
				if debugNames {
					println("names: alias in", key, old[i].Name, "->", cur[i].Name)
				}
				if e.nameAliases[key] == nil {
					e.nameAliases[key] = map[string][]string{}
				}
				e.nameAliases[key][cur[i].Name] = append(e.nameAliases[key][cur[i].Name], old[i].Name)
			}
		}
	}
}

func (e *Engine) writeNameSigs(verifDir string) error {
	rec := map[string][]nameSig{}
	for key, sp := range e.funcSpecs {
		if fn := e.funcs[key]; fn != nil && sp != nil {
			rec[key] = funcNameSig(fn)
		}
	}
	b, _ := json.MarshalIndent(rec, "", " ")
	return os.WriteFile(filepath.Join(verifDir, "props", "names.json"), b, 0o644)
}

// aliasesOf returns the recorded names that now denote the current name cur in the function being verified.
func (x *Exec) aliasesOf(cur string) []string {
	if x.eng.nameAliases == nil {
		return nil
	}
	as := x.eng.nameAliases[funcKey(x.fn)][cur]
	if len(as) > 0 {
		x.assumeNote("contract names resolved by position after a rename in the code: " + as[0] + " -> " + cur + " in " + funcKey(x.fn))
	}
	return as
}

func init() {
	if os.Getenv("HVC_DEBUG_NAMES") != "" {
		debugNames = true
	}
}

var debugNames bool

package main

import (
	"sort"
	"fmt"
	"go/types"
	"strings"

	"golang.org/x/tools/go/ssa"
)

// Event is one observable ghost event on a path.
type Event struct {
	Kind string // send, sendmsg, call:<key>, callfn, chansend, go, close, loop
	Args []Val
	Heap map[string]Term // heap snapshot at emission time
	Desc string
	Held []HeldLock // locks held when the event was emitted
	Loop int // ordinal of the loop whose (single symbolic) iteration emitted the event; 0 = outside loops
}

type HeldLock struct {
	Field string // canonical lock field name, e.g. models.Session.participantMutex
	Ref   Term   // object the lock belongs to
	Mode  string // "R" or "W"
}

// Obligation instance generated on one path.
type Obl struct {
	Name   string
	Tags   []string
	Goal   Term
	PCLen  int    // number of path-condition entries in force
	Extra  []Term // extra hypotheses (behaviour assumes)
	Desc   string
	Pos    string
	Static string // "" = needs solver; "fail: reason" = statically failed; "ok" = statically discharged
	Cover  bool   // cover obligation: expected SAT
}

type deferred struct {
	call  *ssa.CallCommon
	args  []Val
	fnval Val
	instr ssa.Instruction
}

type Frame struct {
	fn     *ssa.Function
	locals map[ssa.Value]Val
	block  *ssa.BasicBlock
	prev   *ssa.BasicBlock
	pc     int
	defers []deferred
	// where to put the result in the caller
	retInstr ssa.Value
	closure  *Closure
	// callback continuation marker: when this frame returns, run continuation id
	cont func(st *State, results []Val)
	flagGuard string // feature flag whose IfSet/IfNotSet closure this frame (and its callees) runs under
	// source-level names of locals (from DebugRef), for loop invariants
	names map[string]namedRef
}

type namedRef struct {
	val    Val
	isAddr bool
}

type State struct {
	x      *Exec
	pc     []Term
	heap   map[string]Term
	frames []*Frame
	events []Event
	held   []HeldLock
	alloc  Term
	obls   []Obl
	nonnil map[string]bool
	iters  map[int]*Iter
	dead   bool
	// loop bookkeeping for the top-level function
	inLoop    map[int]bool   // headers whose cut has been entered on this path
	dryWrites map[string]bool // non-nil in dry-run mode
	stopAt    map[*ssa.BasicBlock]bool
	notes     []string
	depth     int
	eventsInLoop bool
	onceDone  map[string]Term
	chanLens  map[string]Term // channel reference -> the most recent len() observed on this path
	statics   map[string]Val
	lastNow   *Term
	trace     []string
	loopHeld  []HeldLock
	loopHeldBy map[int][]HeldLock
	assumeTo  *State // evaluation copies forward their assumptions to the real state
	dryFreshFrom int
	dryKinds map[string]int // how each array is written in the dry run (wLoopFresh|wFnFresh|wArbitrary|wCallee)
	dryWilds *[][2][]string // wildcard havocs met in the dry run (shared by its forks)
	pendingWild [][2][]string // wildcard frames of the callee being applied (recorded once its allocations are accounted for)
	pendingAx []pendingAxiom
	ghosts map[string]Term // loop ghost arrays
	curLoop int
	released map[string]bool // locks released earlier on this path (atomicity rule)
	regionMoved map[string]string // fresh map ref -> region it was stored into
	calleeHavoc bool
	localRefs []localRef // non-escaping locals of the functions on the stack
	loopEvStart map[int]int
	loopHeap map[int]map[string]Term // heap at the start of the symbolic iteration
}

func (st *State) clone() *State {
	n := *st
	n.pc = append([]Term(nil), st.pc...)
	n.heap = make(map[string]Term, len(st.heap))
	for k, v := range st.heap {
		n.heap[k] = v
	}
	n.frames = make([]*Frame, len(st.frames))
	for i, f := range st.frames {
		nf := *f
		nf.locals = make(map[ssa.Value]Val, len(f.locals))
		for k, v := range f.locals {
			nf.locals[k] = v
		}
		nf.defers = append([]deferred(nil), f.defers...)
		if f.names != nil {
			nf.names = make(map[string]namedRef, len(f.names))
			for k, v := range f.names {
				nf.names[k] = v
			}
		}
		n.frames[i] = &nf
	}
	n.events = append([]Event(nil), st.events...)
	n.held = append([]HeldLock(nil), st.held...)
	n.obls = append([]Obl(nil), st.obls...)
	n.nonnil = make(map[string]bool, len(st.nonnil))
	for k, v := range st.nonnil {
		n.nonnil[k] = v
	}
	n.iters = make(map[int]*Iter, len(st.iters))
	for k, v := range st.iters {
		c := *v
		n.iters[k] = &c
	}
	n.inLoop = make(map[int]bool, len(st.inLoop))
	for k, v := range st.inLoop {
		n.inLoop[k] = v
	}
	if st.dryWrites != nil {
		// shared on purpose: dry-run collects writes over all paths
		n.dryWrites = st.dryWrites
	}
	if st.chanLens != nil {
		n.chanLens = make(map[string]Term, len(st.chanLens))
		for k, v := range st.chanLens {
			n.chanLens[k] = v
		}
	}
	n.onceDone = make(map[string]Term, len(st.onceDone))
	for k, v := range st.onceDone {
		n.onceDone[k] = v
	}
	if st.loopHeldBy != nil {
		n.loopHeldBy = make(map[int][]HeldLock, len(st.loopHeldBy))
		for k, v := range st.loopHeldBy {
			n.loopHeldBy[k] = v
		}
	}
	if st.loopHeap != nil {
		n.loopHeap = make(map[int]map[string]Term, len(st.loopHeap))
		for k, v := range st.loopHeap {
			n.loopHeap[k] = v
		}
	}
	if st.loopEvStart != nil {
		n.loopEvStart = make(map[int]int, len(st.loopEvStart))
		for k, v := range st.loopEvStart {
			n.loopEvStart[k] = v
		}
	}
	if st.released != nil {
		n.released = make(map[string]bool, len(st.released))
		for k, v := range st.released {
			n.released[k] = v
		}
	}
	if st.regionMoved != nil {
		n.regionMoved = make(map[string]string, len(st.regionMoved))
		for k, v := range st.regionMoved {
			n.regionMoved[k] = v
		}
	}
	n.ghosts = make(map[string]Term, len(st.ghosts))
	for k, v := range st.ghosts {
		n.ghosts[k] = v
	}
	n.statics = make(map[string]Val, len(st.statics))
	for k, v := range st.statics {
		n.statics[k] = v
	}
	n.localRefs = append([]localRef(nil), st.localRefs...)
	n.notes = append([]string(nil), st.notes...)
	n.trace = append([]string(nil), st.trace...)
	return &n
}

func (st *State) top() *Frame { return st.frames[len(st.frames)-1] }

func (st *State) assume(t Term) {
	if t.S == "true" {
		return
	}
	if st.assumeTo != nil {
		st.assumeTo.assume(t)
		return
	}
	conjMu.Lock()
	cs, isConj := conjTable[t.S]
	conjMu.Unlock()
	if isConj {
		for _, c := range cs {
			st.assume(c)
		}
		return
	}
	st.pc = append(st.pc, t)
}

func (st *State) fresh(hint string, s Sort) Term {
	return st.x.fresh(hint, s)
}

// heapGet returns the current version of array `name`, declaring its entry version lazily.
func (st *State) heapGet(name string, sort Sort) Term {
	if t, ok := st.heap[name]; ok {
		if t.Sort != sort {
			panic(fmt.Sprintf("heap array %s used with sort %s and %s", name, t.Sort, sort))
		}
		return t
	}
	t := st.x.decls.Const(name+"@0", sort)
	if _, seen := st.x.baseArrays[name]; !seen {
		st.x.baseArrays[name] = sort
		if ax, ok := st.x.typeAxiom(name, t, Term{"alloc0", SInt}); ok {
			st.x.decls.Axiom(ax)
		}
	}
	// an array that is looked at for the first time after a callee with a wildcard frame (`modifies all
	// T.*`) ran: its value is what that callee left, not the entry value
	if w, ok := lastWildFor(st.heap, name); ok {
		cn := name + "@w" + w.seq
		hv := st.x.decls.Const(cn, sort)
		if !st.x.wildDeclared[cn] {
			st.x.wildDeclared[cn] = true
			if ax, ok := st.x.typeAxiom(name, hv, Term{w.alloc, SInt}); ok {
				st.x.decls.Axiom(ax)
			}
		}
		st.heap[name] = hv
		return hv
	}
	return t
}

// A wildcard havoc is remembered inside the heap map itself (so that every snapshot of the heap carries
// exactly the havocs that happened before it): key "~wild:<seq>", value = patterns, preserved name
// parts and the allocation mark after the call.
const wildKeyPrefix = "~wild:"

type wildRec struct {
	seq   string
	pats  []string
	keep  []string
	alloc string
}

func parseWild(key string, t Term) wildRec {
	parts := strings.Split(t.S, "\x1e")
	w := wildRec{seq: strings.TrimPrefix(key, wildKeyPrefix)}
	if len(parts) == 3 {
		if parts[0] != "" {
			w.pats = strings.Split(parts[0], "\x1f")
		}
		if parts[1] != "" {
			w.keep = strings.Split(parts[1], "\x1f")
		}
		w.alloc = parts[2]
	}
	return w
}

func (w wildRec) matches(name string) bool {
	for _, k := range w.keep {
		if strings.Contains(name, k) {
			return false
		}
	}
	for _, p := range w.pats {
		if strings.Contains(name, p) {
			return true
		}
	}
	return false
}

func wildRecs(heap map[string]Term) []wildRec {
	var out []wildRec
	for k, v := range heap {
		if strings.HasPrefix(k, wildKeyPrefix) {
			out = append(out, parseWild(k, v))
		}
	}
	sort.Slice(out, func(i, j int) bool { return out[i].seq < out[j].seq })
	return out
}

func lastWildFor(heap map[string]Term, name string) (wildRec, bool) {
	if strings.HasPrefix(name, "cell:") {
		return wildRec{}, false
	}
	rs := wildRecs(heap)
	for i := len(rs) - 1; i >= 0; i-- {
		if rs[i].matches(name) {
			return rs[i], true
		}
	}
	return wildRec{}, false
}

// recordWild notes that arrays matching pats (except those containing a keep part) were havoced; to be
// called after the allocation mark has been advanced.
func (st *State) recordWild(pats, keep []string) {
	st.x.wildSeq++
	st.heap[fmt.Sprintf("%s%06d", wildKeyPrefix, st.x.wildSeq)] = Term{S: strings.Join(pats, "\x1f") + "\x1e" + strings.Join(keep, "\x1f") + "\x1e" + st.alloc.S, Sort: "wild"}
	if st.dryWilds != nil {
		*st.dryWilds = append(*st.dryWilds, [2][]string{pats, keep})
	}
}

type localRef struct {
	prefix string
	ref    Term
}

type pendingAxiom struct {
	name string
	arr  Term
	elem bool // arr is one havoced element (scalar or inner array) of array `name`, not the whole array
}

// flushAxioms asserts the typing axioms of freshly havoced arrays against the current allocation
// counter (called once the counter has been advanced past whatever the havoc may have allocated).
func (st *State) flushAxioms() {
	for _, p := range st.pendingAx {
		if p.elem {
			if ax, ok := st.x.elemAxiom(p.name, p.arr, st.alloc); ok {
				st.assume(ax)
			}
			continue
		}
		if ax, ok := st.x.typeAxiom(p.name, p.arr, st.alloc); ok {
			st.assume(ax)
		}
	}
	st.pendingAx = nil
}

// elemAxiom: typing of one havoced element (a scalar, or the inner array of a two-level array).
func (x *Exec) elemAxiom(name string, el Term, alloc Term) (Term, bool) {
	c, ok := x.leaf[name]
	if !ok {
		return Term{}, false
	}
	var v Term
	var vars []Term
	if el.Sort.IsArray() {
		j := Term{"j!ea", SInt}
		v = Select(el, j)
		vars = []Term{j}
	} else {
		v = el
	}
	if v.Sort != SInt {
		return Term{}, false
	}
	var body Term
	if lo, hi, isInt := intRange(c.Typ); isInt && !strings.HasSuffix(c.Suffix, "#a") && !strings.HasSuffix(c.Suffix, "#l") {
		body = And(Le(Term{lo, SInt}, v), Le(v, Term{hi, SInt}))
	} else if isNamed(c.Typ, "time", "Time") {
		return Term{}, false
	} else if isRefLike(c) {
		body = And(Ge(v, TZero), Le(v, alloc))
	} else {
		body = Ge(v, TZero)
	}
	return Forall(vars, body), true
}

// typeAxiom: every element of a heap array respects the Go type of the field it models.
func (x *Exec) typeAxiom(name string, arr Term, alloc Term) (Term, bool) {
	c, ok := x.leaf[name]
	if !ok {
		return Term{}, false
	}
	i, j := Term{"i!ta", SInt}, Term{"j!ta", SInt}
	var el Term
	vars := []Term{i}
	if arr.Sort.Elem().IsArray() {
		el = Select(Select(arr, i), j)
		vars = append(vars, j)
	} else {
		el = Select(arr, i)
	}
	if el.Sort != SInt {
		return Term{}, false
	}
	var body Term
	if lo, hi, isInt := intRange(c.Typ); isInt && !strings.HasSuffix(c.Suffix, "#a") && !strings.HasSuffix(c.Suffix, "#l") {
		body = And(Le(Term{lo, SInt}, el), Le(el, Term{hi, SInt}))
	} else if isNamed(c.Typ, "time", "Time") {
		return Term{}, false
	} else if isRefLike(c) {
		// only objects that exist (index <= alloc) are known to hold references to existing objects: the
		// array's values at indices not yet allocated are what a contracted callee's fresh results will
		// be read from, and those may refer to anything allocated by then
		body = And(Ge(el, TZero), Implies(Le(i, alloc), Le(el, alloc)))
	} else {
		body = Ge(el, TZero)
	}
	return Forall(vars, body), true
}

func (x *Exec) noteLeaf(name string, c Comp) {
	if _, ok := x.leaf[name]; !ok {
		x.leaf[name] = c
	}
}

func (st *State) heapSet(name string, v Term) { st.heapSetAt(name, v, nil) }

// heapSetAt records a new version of array name; idx is the (first-level) index written.
func (st *State) heapSetAt(name string, v Term, idx *Term) {
	// name a new version to keep terms small
	n := st.fresh("H", v.Sort)
	st.assume(Eq(n, v))
	st.heap[name] = n
	st.noteWrite(name, idx)
	if st.dryWrites == nil && len(st.frames) > 0 {
		if g := st.currentFlagGuard(); g != "" && !strings.HasPrefix(name, "ghost.") && !strings.HasPrefix(name, "cell:") && !strings.Contains(name, ":fresh:") && !(idx != nil && isFreshTerm(*idx)) {
			st.obligeStaticFail("flag:state-write:"+name, []string{"C17"}, "server state ("+name+") is written inside the closure guarded by feature flag "+g+": the flag would change more than its message class")
		}
	}
}

// noteWrite: in dry-run mode remember which arrays the loop body writes, and whether every
// write goes to an object allocated inside the body.
func (st *State) noteWrite(name string, idx *Term) {
	if st.dryWrites == nil {
		return
	}
	if _, ok := st.dryWrites[name]; !ok {
		st.dryWrites[name] = false
	}
	switch {
	case idx != nil && isFreshTerm(*idx) && freshNumber(*idx) > st.dryFreshFrom:
		st.dryKinds[name] |= wLoopFresh
	case idx != nil && isFreshTerm(*idx):
		st.dryKinds[name] |= wFnFresh
		st.dryWrites[name] = true
	default:
		st.dryKinds[name] |= wArbitrary
		st.dryWrites[name] = true
	}
}

// noteCalleeHavoc: a contracted callee may rewrite the whole array (but not the caller's locals).
func (st *State) noteCalleeHavoc(name string) {
	if st.dryWrites == nil {
		return
	}
	st.dryWrites[name] = true
	st.dryKinds[name] |= wCallee
}

const (
	wLoopFresh = 1 << iota // written at objects allocated inside the loop body
	wFnFresh               // written at objects allocated earlier by this function
	wArbitrary             // written at arbitrary objects by the function's own code
	wCallee                // havoced wholesale by a contracted callee
)

func freshNumber(t Term) int {
	k := strings.LastIndex(t.S, "!")
	n := 0
	fmt.Sscanf(t.S[k+1:], "%d", &n)
	return n
}

func (st *State) heapHavoc(name string, sort Sort) Term {
	n := st.fresh("Hh", sort)
	st.heap[name] = n
	st.pendingAx = append(st.pendingAx, pendingAxiom{name, n, false})
	if st.calleeHavoc {
		st.noteCalleeHavoc(name)
	} else {
		st.noteWrite(name, nil)
	}
	return n
}

// ---- locations ----

func defaultPrefix(elem types.Type) string {
	e := types.Unalias(elem)
	if _, ok := e.Underlying().(*types.Struct); ok {
		if _, named := e.(*types.Named); named {
			return typeName(e)
		}
	}
	return "cell:" + typeName(elem)
}

func ptrElem(t types.Type) types.Type {
	p, ok := types.Unalias(t).Underlying().(*types.Pointer)
	if !ok {
		panic("not a pointer type: " + typeName(t))
	}
	return p.Elem()
}

func (v Val) prefix() string {
	if v.Prefix != "" {
		return v.Prefix
	}
	return defaultPrefix(ptrElem(v.Typ))
}

func (st *State) arrFor(ptr Val, c Comp) (string, Sort) {
	name := ptr.prefix() + c.Suffix
	st.x.noteLeaf(name, c)
	s := ArrSort(c.Sort)
	if ptr.Idx != nil {
		s = ArrSort(s)
	}
	return name, s
}

// load reads *ptr.
func (st *State) load(ptr Val) Val {
	elem := ptrElem(ptr.Typ)
	out := Val{Typ: elem}
	for _, c := range comps(elem) {
		name, s := st.arrFor(ptr, c)
		a := st.heapGet(name, s)
		var t Term
		if ptr.Idx != nil {
			t = Select(Select(a, ptr.T()), *ptr.Idx)
		} else {
			t = Select(a, ptr.T())
		}
		out.C = append(out.C, t)
	}
	if isMapType(elem) {
		out.Region = ptr.prefix()
	}
	return out
}

// transferMap moves a freshly made map into the region of the location it is stored to.
func (st *State) transferMap(v Val, target string) {
	src := st.region(v)
	if src == target || v.T().S == "0" {
		return
	}
	if !strings.HasPrefix(src, "fresh:") {
		unsupp("map value moves from region %s to region %s (maps must stay in the location class they were created for)", src, target)
	}
	from := st.mapArraysR(v.Typ, src)
	to := st.mapArraysR(v.Typ, target)
	r := v.T()
	st.heapSetAt("mapdom:"+target, Store(to.dom, r, Select(from.dom, r)), &r)
	st.heapSetAt("mapcard:"+target, Store(to.card, r, Select(from.card, r)), &r)
	for i, c := range comps(from.mt.Elem()) {
		st.heapSetAt("mapval:"+target+c.Suffix, Store(to.vals[i], r, Select(from.vals[i], r)), &r)
	}
	if st.regionMoved == nil {
		st.regionMoved = map[string]string{}
	}
	st.regionMoved[v.T().S] = target
	st.x.assumeNote("A-region: a map object is referenced from one location class only (the field or map-of-maps slot it was created for); maps in different location classes never alias")
}

func (st *State) loadIn(heap map[string]Term, ptr Val) Val {
	saved := st.heap
	st.heap = heap
	defer func() { st.heap = saved }()
	return st.load(ptr)
}

// store writes *ptr = v.
func (st *State) store(ptr Val, v Val) {
	elem := ptrElem(ptr.Typ)
	if isMapType(elem) && isMapType(v.Typ) {
		st.transferMap(v, ptr.prefix())
	}
	cs := comps(elem)
	if len(cs) != len(v.C) {
		panic(fmt.Sprintf("store: component mismatch for %s: %d vs %d (val type %s)", typeName(elem), len(cs), len(v.C), typeName(v.Typ)))
	}
	for i, c := range cs {
		name, s := st.arrFor(ptr, c)
		a := st.heapGet(name, s)
		var na Term
		if ptr.Idx != nil {
			na = Store(a, ptr.T(), Store(Select(a, ptr.T()), *ptr.Idx, v.C[i]))
		} else {
			na = Store(a, ptr.T(), v.C[i])
		}
		r := ptr.T()
		st.heapSetAt(name, na, &r)
	}
}

// allocObj allocates a fresh object of type elem, zero-initialised, and returns a pointer.
func (st *State) allocObj(elem types.Type, hint string) Val {
	r := st.fresh("new_"+hint, SInt)
	st.assume(Eq(r, Add(st.alloc, IntLit(1))))
	st.alloc = r
	p := Val{Typ: types.NewPointer(elem), C: []Term{r}}
	st.nonnil[r.S] = true
	st.store(p, zeroVal(elem))
	return p
}

// freshRef returns a fresh reference without initialising anything (maps, chans, closures).
func (st *State) freshRef(hint string) Term {
	r := st.fresh("new_"+hint, SInt)
	st.assume(Eq(r, Add(st.alloc, IntLit(1))))
	st.alloc = r
	st.nonnil[r.S] = true
	return r
}

// symbolic creates a fresh unconstrained value of type t with type constraints assumed.
func (st *State) symbolic(t types.Type, hint string) Val {
	v := Val{Typ: t}
	for _, c := range comps(t) {
		v.C = append(v.C, st.fresh(hint+sanitize(c.Suffix), c.Sort))
	}
	st.assume(typeConstraint(t, v.C))
	st.assumeAllocated(v)
	if isNamed(t, "github.com/aukilabs/hagall-common/websocket", "Msg") {
		// A-decoded: a Msg handed to the server code was produced by hwebsocket.Receive / MsgFromProto: its Type is set
		for i, c := range comps(t) {
			if c.Suffix == ".Type" {
				st.assume(Neq(v.C[i], TZero))
			}
		}
		st.x.assumeNote("A-decoded: every hwebsocket.Msg value reaching the server code has a non-nil Type (set by hwebsocket.Receive from the enum field of the envelope)")
	}
	return v
}

func sanitize(s string) string {
	return strings.Map(func(r rune) rune {
		if r >= 'a' && r <= 'z' || r >= 'A' && r <= 'Z' || r >= '0' && r <= '9' || r == '_' {
			return r
		}
		return '_'
	}, s)
}

// assumeAllocated: reference-like components of v are <= current allocation counter.
func (st *State) assumeAllocated(v Val) {
	for i, c := range comps(v.Typ) {
		if isRefLike(c) {
			st.assume(Le(v.C[i], st.alloc))
		}
	}
}

func isRefLike(c Comp) bool {
	if c.Sort != SInt {
		return false
	}
	if strings.HasSuffix(c.Suffix, "#l") {
		return false
	}
	if strings.HasSuffix(c.Suffix, "#a") {
		return true
	}
	switch types.Unalias(c.Typ).Underlying().(type) {
	case *types.Pointer, *types.Map, *types.Chan:
		return true
	}
	return false
}

// ---- maps ----

func mapType(t types.Type) *types.Map {
	m, ok := types.Unalias(t).Underlying().(*types.Map)
	if !ok {
		panic("not a map type: " + typeName(t))
	}
	return m
}

func mapKeyName(t types.Type) string {
	return typeName(types.Unalias(t).Underlying())
}

type mapArrs struct {
	dom  Term
	card Term
	vals []Term
	name string
	mt   *types.Map
}

// regionOf names the heap region of a map value.
func regionOf(m Val) string {
	if m.Region != "" {
		return m.Region
	}
	return mapKeyName(m.Typ)
}

func isMapType(t types.Type) bool {
	_, ok := types.Unalias(t).Underlying().(*types.Map)
	return ok
}

func (st *State) mapArrays(m Val) mapArrs { return st.mapArraysR(m.Typ, st.region(m)) }

// region resolves the heap region of a map value, following moves of freshly made maps.
func (st *State) region(m Val) string {
	r := regionOf(m)
	if strings.HasPrefix(r, "fresh:") && st.regionMoved != nil {
		if to, ok := st.regionMoved[m.T().S]; ok {
			return to
		}
	}
	return r
}

func (st *State) mapArraysR(t types.Type, n string) mapArrs {
	mt := mapType(t)
	if len(comps(mt.Key())) != 1 {
		unsupp("map key type %s", typeName(mt.Key()))
	}
	ma := mapArrs{name: n, mt: mt}
	ma.dom = st.heapGet("mapdom:"+n, ArrSort(ArrSort(SBool)))
	ma.card = st.heapGet("mapcard:"+n, ArrSort(SInt))
	for _, c := range comps(mt.Elem()) {
		st.x.noteLeaf("mapval:"+n+c.Suffix, c)
		ma.vals = append(ma.vals, st.heapGet("mapval:"+n+c.Suffix, ArrSort(ArrSort(c.Sort))))
	}
	return ma
}

func (st *State) mapHas(m Val, k Term) Term {
	ma := st.mapArrays(m)
	return And(Neq(m.T(), TZero), Select(Select(ma.dom, m.T()), k))
}

func (st *State) mapGetRaw(m Val, k Term) Val {
	ma := st.mapArrays(m)
	out := Val{Typ: ma.mt.Elem()}
	for _, va := range ma.vals {
		out.C = append(out.C, Select(Select(va, m.T()), k))
	}
	if isMapType(out.Typ) {
		out.Region = ma.name + "[]"
	}
	return out
}

// mapGet returns Go semantics: zero value if absent.
func (st *State) mapGet(m Val, k Term) (Val, Term) {
	has := st.mapHas(m, k)
	raw := st.mapGetRaw(m, k)
	z := zeroVal(raw.Typ)
	out := Val{Typ: raw.Typ, Region: raw.Region}
	for i := range raw.C {
		out.C = append(out.C, Ite(has, raw.C[i], z.C[i]))
	}
	return out, has
}

func (st *State) mapLen(m Val) Term {
	ma := st.mapArrays(m)
	card := Select(ma.card, m.T())
	st.mapCardFacts(m, ma)
	return Ite(Eq(m.T(), TZero), TZero, card)
}

// mapCardFacts adds the finite-set facts relating card and dom for map m at the current heap.
func (st *State) mapCardFacts(m Val, ma mapArrs) {
	if st.x.quantDepth > 0 {
		// under a binder: state the facts for all maps of this region at once
		key := fmt.Sprintf("cardfactsQ|%s|%s", ma.card.S, ma.dom.S)
		if st.nonnil[key] {
			return
		}
		st.nonnil[key] = true
		mm, kk := Term{"m!cq", SInt}, Term{"k!cq", SInt}
		c := Select(ma.card, mm)
		st.assume(Forall([]Term{mm}, And(Ge(c, TZero), Le(c, Term{"1099511627776", SInt}))))
		st.assume(Forall([]Term{mm, kk}, Implies(Select(Select(ma.dom, mm), kk), Ge(c, IntLit(1)))))
		return
	}
	card := Select(ma.card, m.T())
	dom := Select(ma.dom, m.T())
	key := fmt.Sprintf("cardfacts|%s|%s|%s", card.S, dom.S, m.T().S)
	if st.nonnil[key] {
		return
	}
	st.nonnil[key] = true
	st.assume(Ge(card, TZero))
	st.assume(Le(card, Term{"1099511627776", SInt}))
	st.x.assumeNote("A-mem: a map holds fewer than 2^40 entries")
	k := Term{"k!c", SInt}
	st.assume(Forall([]Term{k}, Implies(Select(dom, k), Ge(card, IntLit(1)))))
	w := st.fresh("wit", SInt)
	st.assume(Implies(Ge(card, IntLit(1)), Select(dom, w)))
}

func (st *State) mapUpdate(m Val, k Term, v Val) {
	if isMapType(v.Typ) {
		st.transferMap(v, st.region(m)+"[]")
	}
	ma := st.mapArrays(m)
	had := Select(Select(ma.dom, m.T()), k)
	mr := m.T()
	st.heapSetAt("mapcard:"+ma.name, Store(ma.card, m.T(), Add(Select(ma.card, m.T()), Ite(had, TZero, IntLit(1)))), &mr)
	st.heapSetAt("mapdom:"+ma.name, Store(ma.dom, m.T(), Store(Select(ma.dom, m.T()), k, TTrue)), &mr)
	for i, c := range comps(ma.mt.Elem()) {
		st.heapSetAt("mapval:"+ma.name+c.Suffix, Store(ma.vals[i], m.T(), Store(Select(ma.vals[i], m.T()), k, v.C[i])), &mr)
	}
}

func (st *State) mapDelete(m Val, k Term) {
	ma := st.mapArrays(m)
	isNil := Eq(m.T(), TZero)
	had := Select(Select(ma.dom, m.T()), k)
	mr := m.T()
	st.heapSetAt("mapcard:"+ma.name, Ite(isNil, ma.card, Store(ma.card, m.T(), Sub(Select(ma.card, m.T()), Ite(had, IntLit(1), TZero)))), &mr)
	st.heapSetAt("mapdom:"+ma.name, Ite(isNil, ma.dom, Store(ma.dom, m.T(), Store(Select(ma.dom, m.T()), k, TFalse))), &mr)
}

func (st *State) makeMap(t types.Type) Val {
	r := st.freshRef("map")
	m := Val{Typ: t, C: []Term{r}, Region: "fresh:" + r.S}
	ma := st.mapArrays(m)
	st.heapSetAt("mapcard:"+ma.name, Store(ma.card, r, TZero), &r)
	st.heapSetAt("mapdom:"+ma.name, Store(ma.dom, r, Term{"((as const (Array Int Bool)) false)", ArrSort(SBool)}), &r)
	return m
}

// ---- slices ----

func sliceElem(t types.Type) types.Type {
	s, ok := types.Unalias(t).Underlying().(*types.Slice)
	if !ok {
		panic("not a slice type: " + typeName(t))
	}
	return s.Elem()
}

func elemPrefix(elem types.Type) string { return "elem:" + typeName(elem) }

func (st *State) sliceElemPtr(s Val, idx Term) Val {
	elem := sliceElem(s.Typ)
	i := idx
	return Val{Typ: types.NewPointer(elem), C: []Term{s.C[0]}, Prefix: elemPrefix(elem), Idx: &i}
}

func (st *State) sliceGet(s Val, idx Term) Val {
	return st.load(st.sliceElemPtr(s, idx))
}

func (st *State) makeSlice(t types.Type, length Term) Val {
	r := st.freshRef("slice")
	elem := sliceElem(t)
	// zero-initialise: the whole backing array is the constant zero array
	z := zeroVal(elem)
	for i, c := range comps(elem) {
		name := elemPrefix(elem) + c.Suffix
		st.x.noteLeaf(name, c)
		a := st.heapGet(name, ArrSort(ArrSort(c.Sort)))
		st.heapSetAt(name, Store(a, r, Term{fmt.Sprintf("((as const %s) %s)", ArrSort(c.Sort), z.C[i].S), ArrSort(c.Sort)}), &r)
	}
	return Val{Typ: t, C: []Term{r, length}}
}

// sliceAppend models append(s, vs...) as a copy into a fresh backing array.
func (st *State) sliceAppend(s Val, vs []Val) Val {
	elem := sliceElem(s.Typ)
	r := st.freshRef("slice")
	n := s.C[1]
	for ci, c := range comps(elem) {
		name := elemPrefix(elem) + c.Suffix
		st.x.noteLeaf(name, c)
		a := st.heapGet(name, ArrSort(ArrSort(c.Sort)))
		inner := Select(a, s.C[0])
		for j, v := range vs {
			inner = Store(inner, Add(n, IntLit(int64(j))), v.C[ci])
		}
		st.heapSetAt(name, Store(a, r, inner), &r)
	}
	return Val{Typ: s.Typ, C: []Term{r, Add(n, IntLit(int64(len(vs))))}}
}

// sliceConcat models append(s, t...): a fresh backing array whose first len(s) elements are those of s and
// whose next len(t) elements are those of t.
func (st *State) sliceConcat(s, t Val) Val {
	elem := sliceElem(s.Typ)
	r := st.freshRef("slice")
	n, m := s.C[1], t.C[1]
	st.assume(Ge(n, TZero))
	st.assume(Ge(m, TZero))
	j := Term{"j!cc", SInt}
	for _, c := range comps(elem) {
		name := elemPrefix(elem) + c.Suffix
		st.x.noteLeaf(name, c)
		a := st.heapGet(name, ArrSort(ArrSort(c.Sort)))
		inner := st.fresh("cat", ArrSort(c.Sort))
		st.assume(Forall([]Term{j}, Implies(And(Ge(j, TZero), Lt(j, n)), Eq(Select(inner, j), Select(Select(a, s.C[0]), j)))))
		st.assume(Forall([]Term{j}, Implies(And(Ge(j, TZero), Lt(j, m)), Eq(Select(inner, Add(n, j)), Select(Select(a, t.C[0]), j)))))
		st.heapSetAt(name, Store(a, r, inner), &r)
	}
	return Val{Typ: s.Typ, C: []Term{r, Add(n, m)}}
}

// ---- obligations ----

func (st *State) oblige(name string, tags []string, goal Term, desc string) {
	if st.dryWrites != nil {
		return
	}
	st.obls = append(st.obls, Obl{Name: name, Tags: tags, Goal: goal, PCLen: len(st.pc), Desc: desc})
}

func (st *State) obligeStaticFail(name string, tags []string, reason string) {
	if st.dryWrites != nil {
		return
	}
	st.obls = append(st.obls, Obl{Name: name, Tags: tags, Goal: TFalse, PCLen: len(st.pc), Desc: reason, Static: "fail: " + reason})
}

// requireNonNil emits a safety obligation that p != nil and then assumes it.
func (st *State) requireNonNil(p Term, site string) {
	if st.nonnil[p.S] {
		return
	}
	st.oblige("safe:nil:"+site, []string{"C08"}, Neq(p, TZero), "nil dereference at "+site)
	st.assume(Neq(p, TZero))
	st.nonnil[p.S] = true
}

// currentFlagGuard: the feature flag guarding the code being executed ("" if none).
func (st *State) currentFlagGuard() string {
	for i := len(st.frames) - 1; i >= 0; i-- {
		if st.frames[i].flagGuard != "" {
			return st.frames[i].flagGuard
		}
	}
	return ""
}

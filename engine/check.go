package main

import (
	"bufio"
	"encoding/json"
	"flag"
	"fmt"
	"os"
	"os/exec"
	"path/filepath"
	"sort"
	"strconv"
	"strings"
	"time"
)

// ---------- property configuration ----------

type PropConfig struct {
	ID        string   `json:"id"`
	Sweep     []string `json:"sweep"`      // extra functions verified without functional contract (safety / lock discipline)
	SweepPkgs []string `json:"sweep_pkgs"` // package dirs whose every function is swept
	NotCovered []string `json:"not_covered"`
	Bounded   []string `json:"bounded"`
	BoundedTests []BoundedTest `json:"bounded_tests"`
	TrivialLoopInvariants bool `json:"trivial_loop_invariants"`
	NoDependencies bool `json:"no_dependencies"`
	SkipClosures bool `json:"sweep_skip_closures"`
	AllContracted bool `json:"all_contracted"`
}

// BoundedTest: demonstration / regression inputs run on the real code (go test -overlay); a bounded
// stand-in where no contract reaches, labelled bounded and never counted as proved.
type BoundedTest struct {
	Pkg   string   `json:"pkg"`
	Files []string `json:"files"`
	Race  bool     `json:"race"`
	What  string   `json:"what"`
}

type PropsFile struct {
	Props map[string]*PropConfig `json:"props"`
}

func loadProps(path string) (*PropsFile, error) {
	data, err := os.ReadFile(path)
	if err != nil {
		return nil, err
	}
	var pf PropsFile
	if err := json.Unmarshal(data, &pf); err != nil {
		return nil, err
	}
	return &pf, nil
}

// ---------- known findings ----------

type Finding struct {
	Status     string // open | fixed
	Property   string
	Func       string
	Obligation string
	What       string
	Raw        string
}

func loadFindings(path string) ([]Finding, error) {
	f, err := os.Open(path)
	if err != nil {
		if os.IsNotExist(err) {
			return nil, nil
		}
		return nil, err
	}
	defer f.Close()
	var out []Finding
	sc := bufio.NewScanner(f)
	sc.Buffer(make([]byte, 1<<20), 1<<20)
	for sc.Scan() {
		l := strings.TrimSpace(sc.Text())
		if l == "" || strings.HasPrefix(l, "#") {
			continue
		}
		fd := Finding{Raw: l}
		switch {
		case strings.HasPrefix(l, "open:"):
			fd.Status = "open"
			rest := strings.TrimSpace(l[5:])
			what := ""
			if k := strings.Index(rest, " :: "); k >= 0 {
				what = rest[k+4:]
				rest = rest[:k]
			}
			fd.What = what
			for _, kv := range strings.Fields(rest) {
				if k := strings.Index(kv, "="); k > 0 {
					switch kv[:k] {
					case "property":
						fd.Property = kv[k+1:]
					case "func":
						fd.Func = kv[k+1:]
					case "obligation":
						fd.Obligation = kv[k+1:]
					}
				}
			}
		case strings.HasPrefix(l, "fixed:"):
			fd.Status = "fixed"
			for _, kv := range strings.Fields(l[6:]) {
				if strings.HasPrefix(kv, "property=") {
					fd.Property = kv[9:]
				}
			}
		default:
			return nil, fmt.Errorf("known findings: unrecognised line %q", l)
		}
		out = append(out, fd)
	}
	return out, sc.Err()
}

// ---------- evidence ----------

type Evidence struct {
	PropertyID  string         `json:"property_id"`
	Tier        string         `json:"tier"`
	Seed        int            `json:"seed"`
	Level       string         `json:"level"`
	Coverage    map[string]any `json:"coverage"`
	Assumptions []string       `json:"assumptions"`
	WallS       float64        `json:"wall_s"`
	Violations  int            `json:"violations"`
}

func tagsOfSpec(fs *FuncSpec) map[string]bool {
	t := map[string]bool{}
	add := func(xs []string) {
		for _, x := range xs {
			t[x] = true
		}
	}
	add(fs.Tags)
	add(fs.EmitTags)
	for _, c := range fs.Requires {
		add(c.Tags)
	}
	for _, c := range fs.Ensures {
		add(c.Tags)
	}
	for _, b := range fs.Behaviours {
		add(b.EmitTags)
		for _, c := range b.Ensures {
			add(c.Tags)
		}
	}
	for _, l := range fs.Loops {
		add(l.EmitTags)
		for _, c := range l.Invariants {
			add(c.Tags)
		}
	}
	for _, cs := range fs.Calls {
		for _, c := range cs.With {
			add(c.Tags)
		}
	}
	return t
}

// structural obligations: the contract-level obligations of a function (as opposed to per-site safety and
// precondition obligations); those of a dependency are all solved with the property that relies on it.
func isStructural(name string) bool {
	for _, p := range []string{"post:", "emits", "inv-init:", "inv-pres:", "frame:", "ho:", "complete", "disjoint", "lemma:", "implements:"} {
		if strings.HasPrefix(name, p) {
			return true
		}
	}
	return false
}

// tracked obligations must not disappear between runs of the unchanged contracts. frame: obligations
// exist only for arrays some path writes; a change that stops writing one is harmless, so their
// disappearance is not reported.
func isTracked(name string) bool {
	return name == "in-subset" || isStructural(name) && !strings.HasPrefix(name, "frame:")
}

func cmdCheck(args []string) int {
	fs := flag.NewFlagSet("check", flag.ExitOnError)
	repo := fs.String("repo", "/repo", "repository root")
	prop := fs.String("property", "", "property id (Cxx)")
	tier := fs.String("tier", "quick", "quick | thorough")
	verif := fs.String("verif", "/verif", "verification directory")
	writeExpected := fs.Bool("write-expected", false, "record the current structural obligation names as the expected set")
	fs.Parse(args)
	if *prop == "" {
		fmt.Fprintln(os.Stderr, "check: --property required")
		return 2
	}
	if t := os.Getenv("VERIF_TIER"); t == "quick" || t == "thorough" {
		*tier = t
	}
	seed := 0
	if s := os.Getenv("VERIF_SEED"); s != "" {
		seed, _ = strconv.Atoi(s)
	}
	t0 := time.Now()
	pf, err := loadProps(filepath.Join(*verif, "props.json"))
	if err != nil {
		fmt.Fprintln(os.Stderr, "check:", err)
		return 2
	}
	pc := pf.Props[*prop]
	if pc == nil {
		fmt.Fprintf(os.Stderr, "check: property %s is not configured (not claimed)\n", *prop)
		return 2
	}
	findings, err := loadFindings(filepath.Join(*verif, "known_findings.txt"))
	if err != nil {
		fmt.Fprintln(os.Stderr, "check:", err)
		return 2
	}
	replayDir := filepath.Join(*verif, "replays", *prop)
	os.RemoveAll(replayDir)
	os.MkdirAll(replayDir, 0o755)
	evPath := filepath.Join(*verif, "evidence", *prop+".json")
	os.MkdirAll(filepath.Dir(evPath), 0o755)

	violations := 0
	coreViolation := false // a solver-decided violation in the session/handler code (history search applies)
	genFailed := map[string]bool{} // functions whose obligations could not be generated (reported once, not once per obligation)
	violate := func(fn, obl, reason, detail, model, query string, hasInput bool) {
		if obl == "(generation)" {
			genFailed[fn] = true
		}
		violations++
		if strings.Contains(fn, "websocket.") || strings.Contains(fn, "models.") || strings.Contains(fn, "modules/vikja.") || strings.Contains(fn, "modules/odal.") {
			coreViolation = true
		}
		rp := filepath.Join(replayDir, fmt.Sprintf("%03d.json", violations))
		rec := map[string]any{
			"property": *prop, "function": fn, "obligation": obl, "reason": reason,
			"solver_output": detail, "model": model, "query_file": query,
			"failing_input_found": hasInput,
			"how_to_reproduce": fmt.Sprintf("bin/hvc verify -keep -tags %s '%s'", *prop, fn),
		}
		b, _ := json.MarshalIndent(rec, "", " ")
		os.WriteFile(rp, b, 0o644)
		suffix := ""
		if !hasInput {
			suffix = " no-failing-input-found"
		}
		fmt.Printf("VIOLATION property=%s replay=%s%s\n", *prop, rp, suffix)
		fmt.Printf("  function=%s obligation=%s: %s\n", fn, obl, reason)
	}

	e, err := loadEngine(*repo)
	if err != nil {
		// the tree does not load (does not compile, or a contract names a function that no longer exists)
		violate("(load)", "load", "repository or contracts failed to load: "+err.Error(), err.Error(), "", "", false)
		writeEvidence(evPath, Evidence{PropertyID: *prop, Tier: *tier, Seed: seed, Level: "proof", WallS: time.Since(t0).Seconds(), Violations: violations,
			Coverage: map[string]any{"obligations": 0, "discharged": 0, "checker_cmd": "bin/hvc check --property " + *prop, "trusted_base": []string{}, "explanation": "load failed"}})
		return 1
	}
	e.sweepLoops = pc.TrivialLoopInvariants
	if *writeExpected {
		e.writeNameSigs(*verif)
	}
	e.loadNameAliases(*verif)
	// functions of the property
	funcSet := map[string]bool{}
	for key, sp := range e.funcSpecs {
		if tagsOfSpec(sp)[*prop] && !sp.Trusted {
			if _, ok := e.funcs[key]; ok {
				funcSet[key] = true
			}
		}
	}
	if pc.AllContracted {
		for key, sp := range e.funcSpecs {
			if sp.IsFunctional() && !sp.Trusted && e.funcs[key] != nil {
				funcSet[key] = true
			}
		}
	}
	swept := map[string]bool{}
	for _, k := range pc.Sweep {
		if _, ok := e.funcs[k]; ok {
			funcSet[k] = true
			swept[k] = true
		} else {
			violate(k, "sweep", "function listed for the sweep no longer exists", "", "", "", false)
		}
	}
	for _, dir := range pc.SweepPkgs {
		for k, fn := range e.funcs {
			if strings.Contains(k, implSep+"(") {
				continue // implements checks are reached through the interface contracts they discharge
			}
			if fn.Pkg != nil && e.byPath[fn.Pkg.Pkg.Path()] != nil && e.byPath[fn.Pkg.Pkg.Path()].Dir == dir {
				if pc.SkipClosures && fn.Parent() != nil {
					continue
				}
				if strings.HasSuffix(e.fileOf(fn), "_test.go") || strings.HasSuffix(e.fileOf(fn), "testing.go") || fn.Synthetic != "" || e.fileOf(fn) == "" {
					continue
				}
				if !funcSet[k] {
					swept[k] = true
				}
				funcSet[k] = true
			}
		}
	}
	keys := sortedKeys(funcSet)
	timeout := 10000
	if *tier == "thorough" {
		timeout = 30000
	}
	work, _ := os.MkdirTemp("", "hvc-"+*prop)
	defer os.RemoveAll(work)
	opts := SolveOpts{TimeoutMS: timeout, WorkDir: work, Workers: 16, Tags: map[string]bool{*prop: true}, KeepFiles: true, CrossCheck: *tier == "thorough"}
	crossChecked, canaryRuns := 0, 0

	type fnSummary struct {
		Func        string   `json:"function"`
		Paths       int      `json:"paths"`
		Obligations int      `json:"obligations"`
		Discharged  int      `json:"discharged"`
		Contract    bool     `json:"under_contract"`
		Inlined     []string `json:"inlined_callees,omitempty"`
		Error       string   `json:"error,omitempty"`
		Dependency  bool     `json:"verified_as_dependency,omitempty"`
	}
	var fsum []fnSummary
	total, discharged, known := 0, 0, 0
	var knownObls []map[string]any
	byKind := map[string]int{}
	bySolver := map[string]int{}
	var solverMS int64
	assume := map[string]bool{}
	trusted := map[string]bool{}
	var samples []any
	var structural []string
	var undecided []string
	usedFindings := map[int]bool{}

	// interface-method contracts used at call sites of this property's functions, and how each implementation
	// of them is checked (implements.go)
	ifaceKeys := map[string]bool{}
	for _, pr := range e.implPairs {
		ifaceKeys[pr.Iface] = true
	}
	usedIface := map[string]bool{}
	// dependency closure: contracted callees whose contracts the property's functions rely on
	isDep := map[string]bool{}
	queue := append([]string(nil), keys...)
	keys = nil
	for len(queue) > 0 {
		k := queue[0]
		queue = queue[1:]
		keys = append(keys, k)
		fr := e.verifyFunc(k)
		if fr.Err != "" && swept[k] && e.funcSpecs[k] != nil {
			// sweep properties do not depend on the functional contract: retry without it
			saved := e.funcSpecs[k]
			delete(e.funcSpecs, k)
			fr2 := e.verifyFunc(k)
			e.funcSpecs[k] = saved
			if fr2.Err == "" || strings.HasPrefix(fr2.Err, "unsupported") {
				fr = fr2
			}
		}
		fopts := opts
		if isDep[k] {
			prop := *prop
			fopts.Select = func(o *Obl) bool {
				if isStructural(o.Name) {
					return true
				}
				for _, t := range o.Tags {
					if t == prop {
						return true
					}
				}
				return false
			}
		}
		rs := solveFunc(fr, fopts)
		if !pc.NoDependencies {
			for _, u := range fr.UsedSpecs {
				// an interface-method contract used at a call site: every implementation in the repository is
				// checked against it (implements.go)
				if _, isIface := ifaceKeys[u]; isIface {
					usedIface[u] = true
				}
				for _, ik := range e.ifaceImpls[u] {
					if !funcSet[ik] {
						funcSet[ik] = true
						queue = append(queue, ik)
					}
				}
				sp := e.funcSpecs[u]
				if sp == nil || sp.Trusted || !sp.IsFunctional() || e.funcs[u] == nil || funcSet[u] {
					continue
				}
				funcSet[u] = true
				isDep[u] = true
				queue = append(queue, u)
			}
		}
		sum := fnSummary{Func: k, Paths: fr.NPaths, Contract: e.funcSpecs[k] != nil, Inlined: fr.Inlined, Error: fr.Err, Dependency: isDep[k]}
		for _, a := range fr.Assumptions {
			assume[a] = true
		}
		for _, u := range fr.UsedSpecs {
			if strings.HasPrefix(u, "assumed") {
				trusted[u] = true
			} else if sp := e.funcSpecs[u]; sp != nil && sp.Trusted {
				trusted["trusted-contract:"+u] = true
			}
		}
		if fr.Err == "" && swept[k] {
			// a swept function inside the supported subset: if a change pushes it outside, that is reported
			// (vanished:in-subset) instead of silently dropping its lock-discipline obligations
			structural = append(structural, k+"#in-subset")
		}
		if fr.Err != "" {
			// fail closed, except for pure sweep functions that were never inside the supported subset
			if swept[k] && strings.HasPrefix(fr.Err, "unsupported") {
				undecided = append(undecided, k+": "+fr.Err)
			} else {
				violate(k, "(generation)", "obligations could not be generated: "+fr.Err, fr.Err, "", "", false)
			}
		}
		for _, r := range rs {
			total++
			sum.Obligations++
			kind := r.Name
			if i := strings.Index(kind, ":"); i > 0 {
				kind = kind[:i]
			}
			byKind[kind]++
			solverMS += r.TimeMS
			if isTracked(r.Name) {
				structural = append(structural, k+"#"+r.Name)
			}
			crossChecked += r.CrossChecked
			if r.Disagree != "" {
				violate(k, r.Name, "solvers disagree: "+r.Disagree, r.Disagree, "", "", false)
			}
			if r.Status == "discharged" {
				discharged++
				sum.Discharged++
				bySolver[r.Solver]++
				if len(samples) < 6 {
					samples = append(samples, map[string]any{"function": k, "obligation": r.Name, "what": r.Desc, "instances": r.Instances, "solver": r.Solver, "ms": r.TimeMS})
				}
				continue
			}
			// known finding?
			matched := false
			for i, fd := range findings {
				if fd.Status == "open" && fd.Property == *prop && fd.Func == k && fd.Obligation == r.Name {
					matched = true
					usedFindings[i] = true
					known++
					knownObls = append(knownObls, map[string]any{"function": k, "obligation": r.Name, "solver_answer": r.Status, "what": fd.What})
					fmt.Printf("KNOWN-FINDING: property=%s %s#%s %s\n", *prop, k, r.Name, fd.What)
				}
			}
			if matched {
				// an open finding is not claimed as proved: it is listed separately, not counted
				total--
				sum.Obligations--
				continue
			}
			reason := r.Desc
			if r.Status == "unknown" {
				reason += " — the solver could not discharge it (undecided)"
			}
			hasInput := false
			violate(k, r.Name, reason, r.Detail, trunc(r.Model, 20000), keepQuery(r.Query, replayDir, violations+1), hasInput)
		}
		// vacuity guards
		if *tier == "thorough" && e.funcSpecs[k] != nil && e.funcSpecs[k].IsFunctional() && fr.Err == "" {
			canaryRuns++
			if c := solveCanary(fr, opts); c == "contradictory" {
				violate(k, "canary", "the hypotheses on every return path are contradictory: `ensures false` would be accepted (vacuous proof)", "", "", "", false)
			}
		}
		cov := solveCovers(fr, opts)
		for _, n := range sortedKeys(cov) {
			if cov[n] == "unreachable" || cov[n] == "contradictory" {
				if n == "vacuity" {
					violate(k, "vacuity", "the precondition of the contract is unsatisfiable", "", "", "", false)
				} else if bn, sub, isSub := strings.Cut(strings.TrimPrefix(n, "cover:"), ":"); isSub {
					// a conditional relay: the condition may legitimately be implied or excluded by the
					// behaviour's assumptions, so only a contradiction among the hypotheses counts
					if sp := e.funcSpecs[k]; cov[n] == "contradictory" && sp != nil && behaviourTagged(sp, bn, *prop) {
						violate(k, n, "every path on which this conditional relay is "+map[bool]string{true: "emitted", false: "suppressed"}[strings.HasPrefix(sub, "when")]+" has contradictory hypotheses (its obligations hold vacuously)", "", "", "", false)
					}
				} else if sp := e.funcSpecs[k]; sp != nil && behaviourTagged(sp, strings.TrimPrefix(n, "cover:"), *prop) {
					violate(k, n, "no path satisfies the assumptions of this behaviour (vacuous)", "", "", "", false)
				}
			}
		}
		fsum = append(fsum, sum)
	}
	// bounded stand-ins: concrete inputs replayed on the real code
	var boundedCases []map[string]any
	for _, bt := range pc.BoundedTests {
		res, out, err := runBounded(*repo, *verif, bt)
		if err != nil {
			violate("(bounded)", "bounded:"+bt.Pkg, "bounded tests could not be run: "+err.Error(), trunc(out, 4000), "", "", false)
			continue
		}
		for _, name := range sortedKeys(res) {
			pass := res[name]
			boundedCases = append(boundedCases, map[string]any{"package": bt.Pkg, "case": name, "passed": pass, "what": bt.What})
			if pass {
				continue
			}
			obl := "bounded:" + name
			matched := false
			for i, fd := range findings {
				if fd.Status == "open" && fd.Property == *prop && fd.Obligation == obl {
					matched = true
					usedFindings[i] = true
					known++
					fmt.Printf("KNOWN-FINDING: property=%s %s#%s %s\n", *prop, bt.Pkg, obl, fd.What)
				}
			}
			if !matched {
				violations++
				rp := filepath.Join(replayDir, fmt.Sprintf("%03d.json", violations))
				rec := map[string]any{"property": *prop, "function": bt.Pkg, "obligation": obl, "reason": "a bounded input fails on the real code", "failing_input_found": true,
					"replay_test": strings.Join(bt.Files, ","), "replay_output": trunc(out, 20000), "how_to_reproduce": "tools/run_finding.sh " + bt.Pkg + " " + strings.Join(bt.Files, " ")}
				b, _ := json.MarshalIndent(rec, "", " ")
				os.WriteFile(rp, b, 0o644)
				fmt.Printf("VIOLATION property=%s replay=%s\n  bounded case %s fails on the real code\n", *prop, rp, name)
			}
		}
	}
	if *prop == "C15" {
		for _, r := range structuralC15(e) {
			total++
			byKind["structural"]++
			structural = append(structural, r.Func+"#"+r.Name)
			if r.Status == "discharged" {
				discharged++
				bySolver["structural"]++
				continue
			}
			violate(r.Func, r.Name, r.Desc+" — "+r.Detail, r.Detail, "", "", false)
		}
	}
	// every open finding of this property must still be observed (otherwise the file is stale: report, do not fail)
	for i, fd := range findings {
		if fd.Status == "open" && fd.Property == *prop && !usedFindings[i] {
			fmt.Printf("NOTE: known finding no longer observed: %s\n", fd.Raw)
		}
	}
	// expected structural obligations
	sort.Strings(structural)
	expPath := filepath.Join(*verif, "props", *prop+".expected")
	if *writeExpected {
		os.MkdirAll(filepath.Dir(expPath), 0o755)
		os.WriteFile(expPath, []byte(strings.Join(structural, "\n")+"\n"), 0o644)
	} else if data, err := os.ReadFile(expPath); err == nil {
		have := map[string]bool{}
		norm := func(s string) string { return strings.Replace(s, "(*", "(", 1) } // value/pointer receiver changes keep their obligations
		for _, s := range structural {
			have[s] = true
			have[norm(s)] = true
		}
		for _, want := range strings.Split(strings.TrimSpace(string(data)), "\n") {
			if k := strings.Index(want, "#"); k < 0 || !isTracked(want[k+1:]) {
				continue
			}
			if want != "" && !have[want] && !have[norm(want)] {
				if genFailed[strings.SplitN(want, "#", 2)[0]] {
					continue // already reported: nothing of this function could be generated
				}
				why := "an obligation that is generated on the unchanged tree was not generated"
				if strings.HasSuffix(want, "#in-subset") {
					if e.funcs[strings.TrimSuffix(want, "#in-subset")] == nil {
						continue // the function was removed or renamed: nothing of it is left to check
					}
					why = "the function could be analysed on the unchanged tree and no longer can (it left the supported subset): its obligations of this property are not checked"
				}
				violate(strings.SplitN(want, "#", 2)[0], "vanished:"+strings.SplitN(want, "#", 2)[1], why, "", "", "", false)
			}
		}
	} else {
		violate("(config)", "expected", "no expected-obligation list for this property", err.Error(), "", "", false)
	}
	if total == 0 {
		violate("(config)", "empty", "no obligations were generated for this property", "", "", "", false)
	}
	var tb []string
	tb = append(tb, "hvc (this VC generator), golang.org/x/tools v0.29.0 go/ssa + go/types", "solvers: z3 5.1.0 (z3-new), cvc5 1.0.3, z3 4.8.12 (no proof certificates)", "soundness of invariant induction over sequential histories (DESIGN §6.2)")
	tb = append(tb, sortedKeys(trusted)...)
	ev := Evidence{
		PropertyID: *prop, Tier: *tier, Seed: seed, Level: "proof", WallS: time.Since(t0).Seconds(), Violations: violations,
		Assumptions: append(sortedKeys(assume), pc.NotCovered...),
		Coverage: map[string]any{
			"obligations":            total,
			"discharged":             discharged,
			"known_findings":         known,
			"known_finding_obligations": knownObls,
			"checker_cmd":            fmt.Sprintf("bin/hvc check --property %s --tier %s", *prop, *tier),
			"trusted_base":           tb,
			"functions":              fsum,
			"functions_under_check":  len(keys),
			"obligations_by_kind":    byKind,
			"discharged_by_backend":  bySolver,
			"solver_time_s":          float64(solverMS) / 1000.0,
			"per_query_timeout_ms":   timeout,
			"cross_checked_instances": crossChecked,
			"canary_functions":        canaryRuns,
			"samples":                samples,
			"outside_subset":         undecided,
			"not_covered":            pc.NotCovered,
			"bounded":                pc.Bounded,
			"bounded_cases":          boundedCases,
			"contracts_read_from":    e.contractSource,
			"interface_contracts":    implSummary(e, usedIface, funcSet),
			"integers":               "Go integers are mathematical integers constrained to their range; wrap-around is explicit for sized types, int/int64 arithmetic is mathematical (listed when used)",
			"explanation":            "every obligation is a negated verification condition generated from the SSA of /repo's working tree and refuted by an SMT solver; 'obligations' counts the obligations claimed as proved on this run - obligations that fail and are listed as open findings in known_findings.txt are reported as KNOWN-FINDING, listed under known_finding_obligations and not counted",
		},
	}
	writeEvidence(evPath, ev)
	fmt.Printf("property %s (%s): %d functions, %d obligations, %d discharged, %d known findings, %d violations, %.1fs\n", *prop, *tier, len(keys), total, discharged, known, violations, time.Since(t0).Seconds())
	if violations > 0 && coreViolation && *prop != "C01" {
		// Search for a concrete failing history on the real handlers (the bounded view-convergence harness of
		// C01). Informational: the result is attached to the replay files; it may or may not be the defect
		// the failed obligation points at, so the VIOLATION lines keep their no-failing-input-found suffix.
		bt := BoundedTest{Pkg: "websocket", Files: []string{"histories_harness_test.go", "c01_views_bounded_test.go"}}
		if _, err := os.Stat(filepath.Join(*verif, "findings", bt.Files[0])); err == nil {
			res, out, err := runBounded(*repo, *verif, bt)
			hs := map[string]any{"what": "bounded history search (TestVerifC01ViewsConvergeBounded) on the current tree", "how_to_reproduce": "tools/run_finding.sh websocket " + strings.Join(bt.Files, " ")}
			if err != nil {
				hs["result"] = "could not be run: " + err.Error()
			} else if pass, ran := res["TestVerifC01ViewsConvergeBounded"]; ran && !pass {
				hs["result"] = "a failing history was found on the real code"
				if k := strings.Index(out, "history "); k >= 0 {
					hs["failing_history"] = trunc(out[k:], 6000)
				}
				fmt.Printf("  history search: a concrete failing history on the real handlers is attached to the replay files\n")
			} else {
				hs["result"] = "no failing history among the bounded family"
			}
			for i := 1; i <= violations; i++ {
				rp := filepath.Join(replayDir, fmt.Sprintf("%03d.json", i))
				if data, err := os.ReadFile(rp); err == nil {
					var rec map[string]any
					if json.Unmarshal(data, &rec) == nil {
						rec["history_search"] = hs
						b, _ := json.MarshalIndent(rec, "", " ")
						os.WriteFile(rp, b, 0o644)
					}
				}
			}
		}
	}
	if violations > 0 {
		return 1
	}
	return 0
}

func behaviourTagged(sp *FuncSpec, name, prop string) bool {
	for _, b := range sp.Behaviours {
		if b.Name != name {
			continue
		}
		for _, t := range b.EmitTags {
			if t == prop {
				return true
			}
		}
		for _, c := range b.Ensures {
			for _, t := range c.Tags {
				if t == prop {
					return true
				}
			}
			if len(c.Tags) == 0 {
				for _, t := range sp.Tags {
					if t == prop {
						return true
					}
				}
			}
		}
	}
	return false
}

func keepQuery(q, dir string, n int) string {
	if q == "" {
		return ""
	}
	dst := filepath.Join(dir, fmt.Sprintf("%03d.smt2", n))
	data, err := os.ReadFile(q)
	if err != nil {
		return ""
	}
	os.WriteFile(dst, data, 0o644)
	return dst
}

func writeEvidence(path string, ev Evidence) {
	if ev.Assumptions == nil {
		ev.Assumptions = []string{}
	}
	b, _ := json.MarshalIndent(ev, "", " ")
	os.WriteFile(path, b, 0o644)
}

// runBounded injects the test files of a bounded stand-in into the repository package with
// `go test -overlay` (nothing is written to the repository) and returns pass/fail per test.
func runBounded(repo, verif string, bt BoundedTest) (map[string]bool, string, error) {
	dir, err := os.MkdirTemp("", "hvc-bounded")
	if err != nil {
		return nil, "", err
	}
	defer os.RemoveAll(dir)
	repl := map[string]string{}
	files := append([]string{"zz_verif_helpers_test.go"}, bt.Files...)
	for _, f := range files {
		src := filepath.Join(verif, "findings", bt.Pkg, f)
		if _, err := os.Stat(src); err != nil {
			src = filepath.Join(verif, "findings", f)
			if _, err := os.Stat(src); err != nil {
				if f == "zz_verif_helpers_test.go" {
					continue
				}
				return nil, "", fmt.Errorf("bounded test file %s not found", f)
			}
		}
		repl[filepath.Join(repo, bt.Pkg, "zz_verif_"+f)] = src
	}
	ov, _ := json.Marshal(map[string]any{"Replace": repl})
	ovPath := filepath.Join(dir, "ov.json")
	os.WriteFile(ovPath, ov, 0o644)
	args := []string{"test", "-overlay", ovPath, "-vet=off", "-count=1", "-timeout", "300s", "-v", "-run", "TestVerif"}
	if bt.Race {
		args = append(args, "-race")
	}
	args = append(args, "./"+bt.Pkg)
	cmd := exec.Command("go", args...)
	cmd.Dir = repo
	cmd.Env = append(os.Environ(), "GOFLAGS=-mod=mod", "GOPROXY=off", "GOSUMDB=off", "GOTOOLCHAIN=local")
	outB, _ := cmd.CombinedOutput()
	out := string(outB)
	res := map[string]bool{}
	for _, l := range strings.Split(out, "\n") {
		l = strings.TrimSpace(l)
		if strings.HasPrefix(l, "--- PASS: ") {
			res[strings.Fields(l[len("--- PASS: "):])[0]] = true
		} else if strings.HasPrefix(l, "--- FAIL: ") {
			res[strings.Fields(l[len("--- FAIL: "):])[0]] = false
		}
	}
	if len(res) == 0 {
		return nil, out, fmt.Errorf("no test results (build failure?)")
	}
	return res, out, nil
}

// implSummary lists, for every interface-method contract this run relied on, each implementation in the
// repository and how it was checked against the contract (or why it stays assumed).
func implSummary(e *Engine, used map[string]bool, verified map[string]bool) []map[string]any {
	var out []map[string]any
	for _, pr := range e.implPairs {
		if !used[pr.Iface] && !(pr.BodyKey != "" && verified[pr.BodyKey]) && !(pr.FrameRefinement && verified[pr.Impl]) {
			continue
		}
		m := map[string]any{"interface_method": pr.Iface, "implementation": pr.Impl}
		switch {
		case pr.Unchecked != "":
			m["status"] = "assumed"
			m["reason"] = pr.Unchecked
		case pr.BodyKey != "" && pr.FrameRefinement:
			m["status"] = "checked: ensures clauses on the body (" + pr.BodyKey + "), frame by refinement of the method's own proved frame (implements:frame)"
		case pr.BodyKey != "":
			m["status"] = "checked: body verified against the interface contract (" + pr.BodyKey + ")"
		default:
			m["status"] = "checked: frame by refinement of the method's own proved frame (implements:frame); the interface contract has no ensures clause"
		}
		if pr.BodyKey != "" && !verified[pr.BodyKey] || pr.BodyKey == "" && pr.FrameRefinement && !verified[pr.Impl] {
			m["in_this_run"] = false
		}
		out = append(out, m)
	}
	return out
}

package main

import (
	"fmt"
	"go/types"
	"sort"
	"strings"

	"golang.org/x/tools/go/ssa"
)

// Behavioural subtyping ("implements:" checks).
//
// A call through an interface is replaced by the contract written on the interface method
// (`//@ func (pkg.Iface).Method`). That contract is an assumption about every implementation unless each
// implementation is checked against it. For every interface-method contract that says something (an
// ensures / trusted_ensures clause, a requires clause, or a frame narrower than `modifies all *`) and for
// every named non-test type of the repository whose method set implements the interface, the body of the
// implementing method is verified against the interface contract (parameters bound to recv, a0, a1, ...;
// trusted_ensures clauses become ordinary ensures clauses here; loop invariants are taken from the
// method's own contract when it has one). The synthetic function key is "<method key>@<interface key>".
const implSep = "@"

func (e *Engine) buildImplements() {
	e.ifaceImpls = map[string][]string{}
	e.implOf = map[string][]string{}
	var named []*types.Named
	for _, pi := range e.pkgs {
		for _, m := range pi.SSA.Members {
			if t, ok := m.(*ssa.Type); ok {
				if n, ok := t.Type().(*types.Named); ok && !types.IsInterface(n) {
					if f := e.prog.Fset.Position(t.Pos()).Filename; strings.HasSuffix(f, "_test.go") || strings.HasSuffix(f, "testing.go") {
						continue
					}
					named = append(named, n)
				}
			}
		}
	}
	sort.Slice(named, func(i, j int) bool { return named[i].String() < named[j].String() })
	var ikeys []string
	for k := range e.funcSpecs {
		ikeys = append(ikeys, k)
	}
	sort.Strings(ikeys)
	for _, ik := range ikeys {
		isp := e.funcSpecs[ik]
		if e.funcs[ik] != nil || !strings.HasPrefix(ik, "(") || strings.Contains(ik, "$") {
			continue
		}
		close := strings.Index(ik, ").")
		if close < 0 {
			continue
		}
		tn := ik[1:close]
		meth := ik[close+2:]
		dot := strings.LastIndex(tn, ".")
		if dot < 0 {
			continue
		}
		pi := e.pkgs[tn[:dot]]
		if pi == nil {
			continue
		}
		obj := pi.Types.Scope().Lookup(tn[dot+1:])
		if obj == nil || !types.IsInterface(obj.Type()) {
			continue
		}
		iface := obj.Type().Underlying().(*types.Interface)
		if isp.Trusted {
			continue
		}
		for _, n := range named {
			var recv types.Type = n
			if !types.Implements(recv, iface) {
				recv = types.NewPointer(n)
				if !types.Implements(recv, iface) {
					continue
				}
			}
			sel := e.prog.MethodSets.MethodSet(recv).Lookup(pi.Types, meth)
			if sel == nil {
				continue
			}
			fn := e.prog.MethodValue(sel)
			if fn == nil || fn.Blocks == nil {
				continue
			}
			if fn.Synthetic != "" {
				// promoted through an embedded field: the method that runs is the embedded type's own, which is
				// checked under its own type (or the embedded field is itself the interface: nothing to check)
				continue
			}
			mk := funcKey(fn)
			own := e.funcSpecs[mk]
			pair := ImplPair{Iface: ik, Impl: mk}
			hasEns := len(isp.Ensures)+len(isp.TrustedEnsures) > 0
			if own != nil && own.HasMod && !own.Trusted {
				// (a) frame refinement inside the implementation's own verification
				pair.FrameRefinement = true
				e.implOf[mk] = append(e.implOf[mk], ik)
			}
			needBody := hasEns || !(own != nil && own.HasMod && !own.Trusted)
			if needBody {
				wildAll := false
				for _, m := range isp.Modifies {
					if m.Coarse && strings.TrimSpace(m.Raw) == "*" {
						wildAll = true
					}
				}
				if hasLoop(fn) && (own == nil || len(own.Loops) == 0) {
					pair.Unchecked = "the implementation has loops and no loop invariants of its own: the interface contract's clauses stay assumed for it"
				} else if hasLoop(fn) && wildAll && !hasEns {
					pair.Unchecked = "the interface contract is an abstract event with the frame `all *` minus preserved patterns and the implementation has loops: the preserved patterns are not compared for it"
				} else {
					key := mk + implSep + ik
					cp := *isp
					cp.Key = key
					cp.IfaceParams = true
					cp.Event = false
					cp.EventName = ""
					cp.Ensures = append(append([]*Clause(nil), isp.Ensures...), isp.TrustedEnsures...)
					cp.TrustedEnsures = nil
					cp.Loops = map[int]*LoopSpec{}
					if own != nil && hasLoop(fn) {
						// the loop invariants are proof hints tied to the body: taken from the method's own contract, and
						// resolved in its package (interface clauses use no package-relative type names)
						cp.Loops = own.Loops
						cp.File = own.File
						cp.Lets = append(append([]LetBind(nil), own.Lets...), isp.Lets...)
					}
					if pair.FrameRefinement {
						// the frame is compared at the level of the contracts (a); only the ensures clauses are checked here
						cp.SkipFrame = true
					}
					if own != nil {
						cp.ImplRequires = own.Requires
						cp.ImplFile = own.File
						cp.ImplLets = own.Lets
					}
					e.funcs[key] = fn
					e.funcSpecs[key] = &cp
					e.ifaceImpls[ik] = append(e.ifaceImpls[ik], key)
					pair.BodyKey = key
				}
			}
			e.implPairs = append(e.implPairs, pair)
		}
	}
}

// ImplPair records how one implementation of a contracted interface method is checked.
type ImplPair struct {
	Iface, Impl     string
	FrameRefinement bool   // own frame is shown to lie within the interface frame (implements:frame obligations)
	BodyKey         string // synthetic key under which the body is verified against the interface clauses
	Unchecked       string // reason why the interface clauses stay assumed for this implementation
}

func ifaceContractSaysSomething(sp *FuncSpec) bool {
	if sp.Trusted {
		return false
	}
	if len(sp.Ensures) > 0 || len(sp.TrustedEnsures) > 0 || len(sp.Behaviours) > 0 {
		return true
	}
	if !sp.HasMod {
		return false
	}
	for _, m := range sp.Modifies {
		if m.Coarse && strings.TrimSpace(m.Raw) == "*" {
			return false
		}
	}
	return true
}

func isImplKey(k string) bool { return strings.Contains(k, ")"+"."+"") && strings.Contains(k, implSep+"(") }

// implementsFrame: the frame this function proves for itself (ml, resolved on the current path) lies within
// the frame of every contracted interface method it implements. Name-level comparison: every array the
// own frame names must be named (or covered by a wildcard, outside the preserved patterns) by the
// interface contract. Emitted once per return path as a static obligation `implements:frame:<iface key>`.
func (x *Exec) implementsFrame(st *State, ml modLocs) {
	for _, ik := range x.eng.implOf[funcKey(x.fn)] {
		if x.spec.IfaceParams {
			return
		}
		isp := x.eng.funcSpecs[ik]
		if isp == nil || !isp.HasMod {
			continue
		}
		vars := map[string]Val{}
		for i, p := range x.fn.Params {
			v, ok := x.params[p.Name()]
			if !ok {
				continue
			}
			if i == 0 {
				vars["recv"] = v
			} else {
				vars[fmt.Sprintf("a%d", i-1)] = v
			}
		}
		ienv := x.newEnv(x.entry.clone(), isp, vars)
		iml := x.resolveModifies(st, isp, ienv)
		covered := func(name string) bool {
			if iml.isCoarse(name) {
				return true
			}
			_, ok := iml.precise[name]
			return ok
		}
		// ghost arrays are constrained through ensures/emits, not frames (same policy as frameObligations); the
		// receiver's own fields may be written by a method (same exemption as in the body check)
		ownPrefix := "\x00"
		if len(x.fn.Params) > 0 {
			if pt, ok := types.Unalias(x.fn.Params[0].Type()).Underlying().(*types.Pointer); ok {
				ownPrefix = typeName(pt.Elem()) + "."
			}
		}
		if !(len(iml.wild) > 0 && len(iml.keep) > 0) {
			ownPrefix = "\x00" // the exemption applies to wildcard frames with preserved patterns only
		}
		skip := func(name string) bool { return strings.HasPrefix(name, "ghost.") || strings.HasPrefix(name, ownPrefix) }
		var bad []string
		for name := range ml.precise {
			if skip(name) {
				continue
			}
			if !covered(name) {
				bad = append(bad, name)
			}
		}
		for name := range ml.coarse {
			if skip(name) {
				continue
			}
			if !covered(name) {
				bad = append(bad, name)
			}
		}
		for _, w := range ml.wild {
			if skip(w) {
				continue
			}
			ok := false
			for _, iw := range iml.wild {
				if strings.Contains(w, iw) {
					ok = true
				}
			}
			// a preserved pattern of the interface must be preserved by the implementation's wildcard too
			for _, k := range iml.keep {
				// the two patterns cannot name a common array when neither contains the other
				kept := w != "" && !strings.Contains(k, w) && !strings.Contains(w, k)
				for _, ok2 := range ml.keep {
					if strings.Contains(k, ok2) {
						kept = true
					}
				}
				if !kept {
					ok = false
				}
			}
			if !ok {
				bad = append(bad, w+"*")
			}
		}
		sort.Strings(bad)
		tags := append(append([]string(nil), x.spec.Tags...), x.spec.ModTags...)
		tags = append(tags, isp.Tags...)
		name := "implements:frame:" + ik
		if len(bad) == 0 {
			st.obls = append(st.obls, Obl{Name: name, Tags: tags, Goal: TTrue, PCLen: len(st.pc), Static: "ok", Desc: "the frame proved for this method lies within the frame of the interface method contract " + ik + " that callers through the interface rely on"})
		} else {
			st.obligeStaticFail(name, tags, "the method's own frame names "+strings.Join(bad, ", ")+", which the contract of the interface method "+ik+" (assumed at calls through the interface) does not allow")
		}
	}
}


package main

import (
	"fmt"
	"go/ast"
	"go/types"
	"os"
	"path/filepath"
	"strconv"
	"strings"

	"golang.org/x/tools/go/packages"
	"golang.org/x/tools/go/ssa"
	"golang.org/x/tools/go/ssa/ssautil"
)

type PkgInfo struct {
	Dir     string // repo-relative dir, e.g. "models"
	Pkg     *packages.Package
	Types   *types.Package
	SSA     *ssa.Package
	imports map[string]*types.Package // by local name
	eng     *Engine
}

type GhostField struct {
	Name string
	Sort Sort
	Typ  types.Type
}

type Engine struct {
	repo       string
	prog       *ssa.Program
	pkgs       map[string]*PkgInfo // by dir
	byPath     map[string]*PkgInfo
	allTypes   map[string]*types.Package
	funcSpecs  map[string]*FuncSpec
	specFns    map[string]*SpecFn
	ufs        map[string]*UFDecl
	typeSpecs  map[string]*TypeSpec
	lemmas     []*LemmaSpec
	specFiles  []*SpecFile
	funcs      map[string]*ssa.Function // by key
	timeType   types.Type
	errorType  types.Type
	inlineAll  bool
	staticVals map[string]Val
	contractSource string // "repo" or "mirror"
	rekeyed []string // contracts re-attached after a value/pointer receiver change
	nameAliases map[string]map[string][]string // function key -> current name -> recorded names (pure renames)
	lockLevels map[string]int    // lock field name -> level
	guards     map[string]string // guarded field array prefix -> mutex field name
	immutable  map[string][]string
	confined   map[string]string
	eventKinds map[string]bool
	sweepLoops bool
	ifaceImpls map[string][]string // interface method key -> synthetic keys of implementation bodies checked against it
	implOf     map[string][]string // implementation method key -> interface method keys whose frame it must refine
	implPairs  []ImplPair
}

func loadEngine(repo string) (*Engine, error) {
	cfg := &packages.Config{
		Mode:       packages.LoadAllSyntax,
		Dir:        repo,
		BuildFlags: []string{"-tags=verif"},
		Env:        append(os.Environ(), "GOFLAGS=-mod=mod", "GOPROXY=off", "GOSUMDB=off", "GOTOOLCHAIN=local"),
	}
	pkgs, err := packages.Load(cfg, "./...")
	if err != nil {
		return nil, err
	}
	var errs []string
	for _, p := range pkgs {
		for _, e := range p.Errors {
			errs = append(errs, e.Error())
		}
	}
	if len(errs) > 0 {
		return nil, fmt.Errorf("package errors:\n%s", strings.Join(errs, "\n"))
	}
	prog, spkgs := ssautil.AllPackages(pkgs, ssa.InstantiateGenerics|ssa.GlobalDebug)
	e := &Engine{
		repo: repo, prog: prog, pkgs: map[string]*PkgInfo{}, byPath: map[string]*PkgInfo{},
		allTypes: map[string]*types.Package{}, funcSpecs: map[string]*FuncSpec{}, specFns: map[string]*SpecFn{},
		ufs: map[string]*UFDecl{}, typeSpecs: map[string]*TypeSpec{}, funcs: map[string]*ssa.Function{},
		staticVals: map[string]Val{}, lockLevels: map[string]int{}, guards: map[string]string{},
		immutable: map[string][]string{}, confined: map[string]string{}, eventKinds: map[string]bool{},
	}
	for i, p := range pkgs {
		if spkgs[i] == nil {
			continue
		}
		spkgs[i].Build()
		dir := strings.TrimPrefix(p.PkgPath, "github.com/aukilabs/hagall/")
		if p.PkgPath == "github.com/aukilabs/hagall" {
			dir = "."
		}
		pi := &PkgInfo{Dir: dir, Pkg: p, Types: p.Types, SSA: spkgs[i], imports: map[string]*types.Package{}, eng: e}
		for _, f := range p.Syntax {
			for _, im := range f.Imports {
				path, _ := strconv.Unquote(im.Path.Value)
				tp := p.Imports[path]
				if tp == nil {
					continue
				}
				name := tp.Types.Name()
				if im.Name != nil {
					name = im.Name.Name
				}
				pi.imports[name] = tp.Types
			}
		}
		e.pkgs[dir] = pi
		e.byPath[p.PkgPath] = pi
	}
	// all transitively imported type packages
	var visit func(p *packages.Package)
	seen := map[string]bool{}
	visit = func(p *packages.Package) {
		if seen[p.PkgPath] {
			return
		}
		seen[p.PkgPath] = true
		e.allTypes[p.PkgPath] = p.Types
		for _, q := range p.Imports {
			visit(q)
		}
	}
	for _, p := range pkgs {
		visit(p)
	}
	// functions by key (including methods and anonymous functions)
	for _, pi := range e.pkgs {
		for _, m := range pi.SSA.Members {
			switch mm := m.(type) {
			case *ssa.Function:
				e.addFunc(mm)
			case *ssa.Type:
				for _, t := range []types.Type{mm.Type(), types.NewPointer(mm.Type())} {
					ms := prog.MethodSets.MethodSet(t)
					for i := 0; i < ms.Len(); i++ {
						if fn := prog.MethodValue(ms.At(i)); fn != nil && fn.Synthetic == "" {
							e.addFunc(fn)
						}
					}
				}
			}
		}
	}
	e.timeType = e.lookupType("time", "Time")
	e.errorType = types.Universe.Lookup("error").Type()
	if err := e.loadContracts(); err != nil {
		return nil, err
	}
	e.buildImplements()
	return e, nil
}

func (e *Engine) addFunc(fn *ssa.Function) {
	if fn.Blocks == nil {
		return
	}
	fn.Blocks[0].Instrs = fn.Blocks[0].Instrs // ensure built
	e.funcs[funcKey(fn)] = fn
	for _, a := range fn.AnonFuncs {
		e.addFunc(a)
	}
}

func (e *Engine) lookupType(pkgPath, name string) types.Type {
	p := e.allTypes[pkgPath]
	if p == nil {
		panic("lookupType: package not loaded: " + pkgPath)
	}
	o := p.Scope().Lookup(name)
	if o == nil {
		panic("lookupType: no " + name + " in " + pkgPath)
	}
	return o.Type()
}

func (e *Engine) pkgForFile(file string) *PkgInfo {
	dir := filepath.Dir(file)
	for _, root := range []string{e.repo, "/verif/contracts"} {
		if rel, err := filepath.Rel(root, dir); err == nil && !strings.HasPrefix(rel, "..") {
			if pi, ok := e.pkgs[filepath.ToSlash(rel)]; ok {
				return pi
			}
		}
	}
	panic("no package for contract file " + file)
}

func (e *Engine) loadContracts() error {
	found := 0
	for dir, pi := range e.pkgs {
		path := filepath.Join(e.repo, dir, "zz_contracts_verif.go")
		src := "repo"
		if _, err := os.Stat(path); err != nil {
			path = filepath.Join("/verif/contracts", dir, "zz_contracts_verif.go")
			src = "mirror"
			if _, err := os.Stat(path); err != nil {
				continue
			}
		}
		if e.contractSource == "" || src == "mirror" {
			e.contractSource = src
		}
		sf, err := parseSpecFile(path, dir)
		if err != nil {
			return err
		}
		found++
		e.specFiles = append(e.specFiles, sf)
		for _, f := range sf.Funcs {
			if _, dup := e.funcSpecs[f.Key]; dup {
				return fmt.Errorf("%s: duplicate contract for %s", path, f.Key)
			}
			e.funcSpecs[f.Key] = f
			if f.Event {
				n := f.EventName
				if n == "" {
					n = shortFuncName(f.Key)
				}
				e.eventKinds[n] = true
			}
		}
		for _, s := range sf.SpecFns {
			if old, dup := e.specFns[s.Name]; dup {
				return fmt.Errorf("%s: spec fn %s already defined in %s", path, s.Name, old.File)
			}
			e.specFns[s.Name] = s
		}
		for _, u := range sf.UFs {
			e.ufs[u.Name] = u
		}
		for _, t := range sf.Types {
			e.typeSpecs[t.Key] = t
			tt := pi.resolveType(t.Key)
			tn := typeName(tt)
			for m, lvl := range t.LockLevels {
				e.lockLevels[tn+"."+m] = lvl
			}
			for _, g := range t.Guards {
				for _, f := range g.Fields {
					e.guards[tn+"."+f] = tn + "." + g.Mutex
				}
			}
			for f, ws := range t.Immutable {
				e.immutable[tn+"."+f] = append([]string{}, ws...)
			}
			for f, owner := range t.Confined {
				e.confined[tn+"."+f] = owner
			}
		}
		for _, l := range sf.Lemmas {
			e.lemmas = append(e.lemmas, l)
		}
	}
	if found == 0 {
		return fmt.Errorf("no contract files found in %s or /verif/contracts", e.repo)
	}
	// a method whose receiver changed between value and pointer keeps its contract
	for _, key := range sortedKeys(e.funcSpecs) {
		if _, ok := e.funcs[key]; ok || !strings.HasPrefix(key, "(") {
			continue
		}
		alt := ""
		if strings.HasPrefix(key, "(*") {
			alt = "(" + key[2:]
		} else {
			alt = "(*" + key[1:]
		}
		if _, ok := e.funcs[alt]; ok && e.funcSpecs[alt] == nil {
			sp := e.funcSpecs[key]
			delete(e.funcSpecs, key)
			sp.Key = alt
			e.funcSpecs[alt] = sp
			e.rekeyed = append(e.rekeyed, key+" -> "+alt)
		}
	}
	// every contract must name an existing function (or an interface method)
	for key := range e.funcSpecs {
		if _, ok := e.funcs[key]; !ok && !strings.Contains(key, ").") {
			return fmt.Errorf("contract for unknown function %s", key)
		}
	}
	return nil
}

func (e *Engine) ghostField(t types.Type, name string) (GhostField, bool) {
	return GhostField{}, false
}

func (e *Engine) ghostFieldByPrefix(prefix string) (GhostField, bool) {
	return GhostField{}, false
}

// guessArraySort derives the sort of a heap array from its name when no state has touched it yet.
func (e *Engine) guessArraySort(name string) Sort {
	switch {
	case strings.HasPrefix(name, "mapdom:"):
		return ArrSort(ArrSort(SBool))
	case strings.HasPrefix(name, "mapcard:"):
		return ArrSort(SInt)
	case name == "ghost.sent", name == "ghost.delivered":
		return ArrSort(ArrSort(SInt))
	case strings.HasPrefix(name, "ghost.gauge"), strings.HasPrefix(name, "ghost.ev:"), strings.HasPrefix(name, "ghost.evn:"):
		return ArrSort(SInt)
	case strings.HasPrefix(name, "once:"), name == "ghost.chanready", name == "ghost.ctxcancelled":
		return ArrSort(SBool)
	case strings.HasPrefix(name, "chan."):
		return ArrSort(SInt)
	}
	return ""
}

// ---------- type resolution in contracts ----------

func (pi *PkgInfo) importByName(name string) *types.Package {
	if p, ok := pi.imports[name]; ok {
		return p
	}
	// fall back: any loaded package with that name (unique)
	var found *types.Package
	for _, p := range pi.eng.allTypes {
		if p.Name() == name {
			if found != nil && found != p {
				return nil
			}
			found = p
		}
	}
	return found
}

func (pi *PkgInfo) resolveType(text string) types.Type {
	text = strings.TrimSpace(text)
	switch {
	case strings.HasPrefix(text, "*"):
		return types.NewPointer(pi.resolveType(text[1:]))
	case strings.HasPrefix(text, "[]"):
		return types.NewSlice(pi.resolveType(text[2:]))
	case strings.HasPrefix(text, "map["):
		depth := 0
		for i := 3; i < len(text); i++ {
			if text[i] == '[' {
				depth++
			}
			if text[i] == ']' {
				depth--
				if depth == 0 {
					return types.NewMap(pi.resolveType(text[4:i]), pi.resolveType(text[i+1:]))
				}
			}
		}
		sfail("bad map type %q", text)
	case text == "struct{}":
		return types.NewStruct(nil, nil)
	}
	if k := strings.Index(text, "."); k >= 0 {
		p := pi.importByName(text[:k])
		if p == nil {
			sfail("unknown package %q in type %q", text[:k], text)
		}
		o := p.Scope().Lookup(text[k+1:])
		if o == nil {
			sfail("unknown type %q", text)
		}
		return o.Type()
	}
	if o := types.Universe.Lookup(text); o != nil {
		return o.Type()
	}
	if o := pi.Types.Scope().Lookup(text); o != nil {
		return o.Type()
	}
	sfail("unknown type %q", text)
	return nil
}

var _ = ast.NewIdent

package main

import (
	"fmt"
	"os"
	"path/filepath"
	"strconv"
	"strings"
	"unicode"
)

// ---------- AST ----------

type Expr interface{}

type (
	EIdent struct{ Name string }
	ENum   struct{ V string }
	EStr   struct{ V string }
	EBin   struct {
		Op   string
		L, R Expr
	}
	EUn struct {
		Op string
		X  Expr
	}
	ECall struct {
		Fn   string
		Args []Expr
		// TypeArgs holds raw type text for builtins taking a type (decoded, dyntype)
		TypeArg string
	}
	EField struct {
		X    Expr
		Name string
	}
	EIndex struct{ X, I Expr }
	QVar   struct{ Name, Type string }
	EQuant struct {
		Forall bool
		Vars   []QVar
		Body   Expr
	}
	FieldInit struct {
		Name string
		X    Expr
	}
	// EMsg is a message pattern  pkg.Type{F: e, ...}
	EMsg struct {
		Type   string
		Fields []FieldInit
	}
	EAssert struct {
		X    Expr
		Type string
	}
)

// Clause is a requires/ensures/invariant/assumes clause.
type Clause struct {
	Kind string
	Text string
	X    Expr
	Tags []string
	N    int // ordinal within its kind
}

// EventPat is one element of an emits list.
type EventPat struct {
	Kind string // send | sendmsg | callee short name | callfn | chansend | go
	Args []Expr
	Cond Expr // optional "when" condition
	AtLeast bool // "atleastwhen C": emitted whenever C holds, possibly also otherwise
	Maybe   bool // "maybe =>> e": may or may not be emitted
	Text string
}

type Behaviour struct {
	Name     string
	Assumes  []*Clause
	Ensures  []*Clause
	Emits    []EventPat
	HasEmits bool
	EmitTags []string
}

type LoopSpec struct {
	N          int
	Invariants []*Clause
	Decreases  Expr
	Ghosts     []string
	Updates    []GhostUpdate
	Emits      []EventPat
	EmitAlts   [][]EventPat // alternatives: the iteration's events match one of these lists
	HasEmits   bool
	EmitTags   []string
	AssumeNonBlocking string
}

// GhostUpdate: at the back edge, ghost array G gets G[Key] = Val (when Cond holds).
type GhostUpdate struct {
	Ghost    string
	Key, Val Expr
	Cond     Expr
	Text     string
}

type LetBind struct {
	Name string
	X    Expr
	Text string
}

// CallsSpec: higher-order parameter call declaration.
type CallsSpec struct {
	Param string
	Args  []string // names bound to fresh callback args
	When  Expr
	Holding []string // lock fields (of the receiver) held while the callback runs
	With  []*Clause // constraints on callback args (ensures-like, may mention arg names)
	Text  string
}

type ModItem struct {
	Text     string
	Coarse   bool   // whole array(s) named by type: "all T.field" / "allcontents(maptype)"
	Contents bool   // contents(expr)
	X        Expr   // location expression (field path) or map expr for contents
	Raw      string // for coarse items: type/field text
	Cond     Expr   // optional " if C": the item belongs to the frame only when C holds in the pre-state
}

type FuncSpec struct {
	Key        string
	File       string
	Lets       []LetBind
	Requires   []*Clause
	Ensures    []*Clause
	TrustedEnsures []*Clause
	Modifies   []ModItem
	Preserves  []string // array-name substrings exempt from wildcard havoc
	ModTags    []string // extra property tags of the frame obligations
	HasMod     bool
	Allocates  bool
	Event      bool
	EventName  string
	Trusted    bool // contract assumed, body not verified (listed)
	Behaviours []*Behaviour
	Complete   bool
	Disjoint   bool
	Loops      map[int]*LoopSpec
	Calls      []*CallsSpec
	Tags       []string // default property tags
	Emits      []EventPat
	HasEmits   bool
	EmitTags   []string
	NoInline   bool
	AssumeNonBlocking string // declared reason why the channel sends of this function cannot block
	Goroutine  string
	OnceBody   bool
	StrictGhost bool
	Panics     string
	// implements checks (implements.go)
	IfaceParams  bool      // clauses name the parameters recv, a0, a1, ...
	SkipFrame    bool      // frame compared at contract level instead
	ModFile      string    // file whose package resolves the modifies items (own contract)
	ImplRequires []*Clause // the implementation's own preconditions, assumed and listed
	ImplFile     string
	ImplLets     []LetBind
}

// IsFunctional: the spec constrains behaviour (not just goroutine / once_body annotations).
func (f *FuncSpec) IsFunctional() bool {
	return f.HasMod || len(f.Requires) > 0 || len(f.Ensures) > 0 || len(f.Behaviours) > 0 || f.HasEmits || len(f.Calls) > 0 || f.Event || f.Trusted
}

type SpecFn struct {
	Name   string
	Params []QVar
	Ret    string
	Body   Expr
	Text   string
	File   string
	Pkg    string // package dir the spec fn was declared in (for type resolution)
}

type UFDecl struct {
	Name      string
	Params    []string
	Ret       string
	Injective bool
	Pkg       string
}

type GuardSpec struct {
	Fields []string
	Mutex  string
	Mode   string // "r" (R or W suffices for read, W for write) — always this semantics
}

type TypeSpec struct {
	Key        string
	Guards     []GuardSpec
	LockLevels map[string]int
	Immutable  map[string][]string // field -> functions allowed to write it
	Confined   map[string]string // field -> owning goroutine
}

type LemmaSpec struct {
	Name string
	Vars []QVar
	X    Expr
	Text string
	Tags []string
	Pkg  string
}

type SpecFile struct {
	Path    string
	Pkg     string
	Funcs   []*FuncSpec
	SpecFns []*SpecFn
	UFs     []*UFDecl
	Types   []*TypeSpec
	Lemmas  []*LemmaSpec
}

// ---------- lexer ----------

type tok struct {
	k string // id num str op eof
	s string
}

type lexer struct {
	src  string
	pos  int
	toks []tok
}

func lex(src string) ([]tok, error) {
	var out []tok
	i := 0
	for i < len(src) {
		c := src[i]
		switch {
		case c == ' ' || c == '\t' || c == '\n' || c == '\r':
			i++
		case unicode.IsLetter(rune(c)) || c == '_' || c == '$':
			j := i + 1
			for j < len(src) && (unicode.IsLetter(rune(src[j])) || unicode.IsDigit(rune(src[j])) || src[j] == '_' || src[j] == '$') {
				j++
			}
			out = append(out, tok{"id", src[i:j]})
			i = j
		case unicode.IsDigit(rune(c)):
			j := i + 1
			for j < len(src) && (unicode.IsDigit(rune(src[j])) || src[j] == '.' && j+1 < len(src) && unicode.IsDigit(rune(src[j+1]))) {
				j++
			}
			out = append(out, tok{"num", src[i:j]})
			i = j
		case c == '"':
			j := i + 1
			for j < len(src) && src[j] != '"' {
				if src[j] == '\\' {
					j++
				}
				j++
			}
			if j >= len(src) {
				return nil, fmt.Errorf("unterminated string")
			}
			s, err := strconv.Unquote(src[i : j+1])
			if err != nil {
				return nil, err
			}
			out = append(out, tok{"str", s})
			i = j + 1
		default:
			ops := []string{"<==>", "==>", "::", "==", "!=", "<=", ">=", "&&", "||"}
			matched := false
			for _, op := range ops {
				if strings.HasPrefix(src[i:], op) {
					out = append(out, tok{"op", op})
					i += len(op)
					matched = true
					break
				}
			}
			if !matched {
				out = append(out, tok{"op", string(c)})
				i++
			}
		}
	}
	out = append(out, tok{"eof", ""})
	return out, nil
}

type parser struct {
	toks []tok
	p    int
	src  string
}

func (p *parser) peek() tok { return p.toks[p.p] }
func (p *parser) next() tok { t := p.toks[p.p]; p.p++; return t }
func (p *parser) isOp(s string) bool {
	t := p.peek()
	return t.k == "op" && t.s == s
}
func (p *parser) isID(s string) bool {
	t := p.peek()
	return t.k == "id" && t.s == s
}
func (p *parser) expectOp(s string) {
	if !p.isOp(s) {
		panic(fmt.Errorf("expected %q, got %q in %q", s, p.peek().s, p.src))
	}
	p.next()
}

func parseExprText(src string) (e Expr, err error) {
	defer func() {
		if r := recover(); r != nil {
			if er, ok := r.(error); ok {
				err = er
				return
			}
			panic(r)
		}
	}()
	toks, err := lex(src)
	if err != nil {
		return nil, err
	}
	p := &parser{toks: toks, src: src}
	e = p.expr()
	if p.peek().k != "eof" {
		return nil, fmt.Errorf("trailing tokens at %q in %q", p.peek().s, src)
	}
	return e, nil
}

func (p *parser) expr() Expr {
	if p.isID("forall") || p.isID("exists") {
		fa := p.next().s == "forall"
		var vars []QVar
		for {
			name := p.next()
			if name.k != "id" {
				panic(fmt.Errorf("quantifier variable expected in %q", p.src))
			}
			p.expectOp(":")
			ty := p.typeText(",", "::")
			vars = append(vars, QVar{name.s, ty})
			if p.isOp(",") {
				p.next()
				continue
			}
			break
		}
		p.expectOp("::")
		body := p.expr()
		return &EQuant{fa, vars, body}
	}
	return p.iff()
}

// typeText collects raw tokens of a Go type until one of the stop operators at depth 0.
func (p *parser) typeText(stops ...string) string {
	var b strings.Builder
	depth := 0
	for {
		t := p.peek()
		if t.k == "eof" {
			break
		}
		if t.k == "op" && depth == 0 {
			stop := false
			for _, s := range stops {
				if t.s == s {
					stop = true
				}
			}
			if stop {
				break
			}
		}
		if t.k == "op" && (t.s == "[" || t.s == "(" || t.s == "{") {
			depth++
		}
		if t.k == "op" && (t.s == "]" || t.s == ")" || t.s == "}") {
			if depth == 0 {
				break
			}
			depth--
		}
		p.next()
		if t.k == "id" && b.Len() > 0 {
			last := b.String()[b.Len()-1]
			if unicode.IsLetter(rune(last)) || unicode.IsDigit(rune(last)) {
				b.WriteByte(' ')
			}
		}
		b.WriteString(t.s)
	}
	return b.String()
}

func (p *parser) iff() Expr {
	l := p.implies()
	for p.isOp("<==>") {
		p.next()
		r := p.implies()
		l = &EBin{"<==>", l, r}
	}
	return l
}

func (p *parser) implies() Expr {
	l := p.or()
	if p.isOp("==>") {
		p.next()
		var r Expr
		if p.isID("forall") || p.isID("exists") {
			r = p.expr()
		} else {
			r = p.implies()
		}
		return &EBin{"==>", l, r}
	}
	return l
}

func (p *parser) or() Expr {
	l := p.and()
	for p.isOp("||") {
		p.next()
		r := p.and()
		l = &EBin{"||", l, r}
	}
	return l
}

func (p *parser) and() Expr {
	l := p.cmp()
	for p.isOp("&&") {
		p.next()
		var r Expr
		if p.isID("forall") || p.isID("exists") {
			r = p.expr()
		} else {
			r = p.cmp()
		}
		l = &EBin{"&&", l, r}
	}
	return l
}

func (p *parser) cmp() Expr {
	l := p.add()
	t := p.peek()
	if t.k == "op" && (t.s == "==" || t.s == "!=" || t.s == "<" || t.s == "<=" || t.s == ">" || t.s == ">=") {
		p.next()
		r := p.add()
		return &EBin{t.s, l, r}
	}
	if t.k == "id" && t.s == "in" {
		p.next()
		r := p.add()
		return &EBin{"in", l, r}
	}
	return l
}

func (p *parser) add() Expr {
	l := p.mul()
	for p.isOp("+") || p.isOp("-") {
		op := p.next().s
		r := p.mul()
		l = &EBin{op, l, r}
	}
	return l
}

func (p *parser) mul() Expr {
	l := p.unary()
	for p.isOp("*") || p.isOp("/") || p.isOp("%") {
		op := p.next().s
		r := p.unary()
		l = &EBin{op, l, r}
	}
	return l
}

func (p *parser) unary() Expr {
	if p.isOp("!") {
		p.next()
		return &EUn{"!", p.unary()}
	}
	if p.isOp("-") {
		p.next()
		return &EUn{"-", p.unary()}
	}
	return p.postfix()
}

func (p *parser) postfix() Expr {
	x := p.primary()
	for {
		switch {
		case p.isOp("."):
			p.next()
			if p.isOp("(") {
				p.next()
				ty := p.typeText(")")
				p.expectOp(")")
				x = &EAssert{x, ty}
				continue
			}
			t := p.next()
			if t.k != "id" {
				panic(fmt.Errorf("field name expected after '.' in %q", p.src))
			}
			x = &EField{x, t.s}
		case p.isOp("["):
			p.next()
			i := p.expr()
			p.expectOp("]")
			x = &EIndex{x, i}
		case p.isOp("{"):
			// message pattern: x must be a (qualified) type name
			tn := exprTypeName(x)
			if tn == "" {
				return x
			}
			p.next()
			m := &EMsg{Type: tn}
			for !p.isOp("}") {
				f := p.next()
				if f.k != "id" {
					panic(fmt.Errorf("field name expected in message pattern in %q", p.src))
				}
				p.expectOp(":")
				v := p.expr()
				m.Fields = append(m.Fields, FieldInit{f.s, v})
				if p.isOp(",") {
					p.next()
				}
			}
			p.expectOp("}")
			x = m
		default:
			return x
		}
	}
}

func exprTypeName(x Expr) string {
	switch e := x.(type) {
	case *EIdent:
		return e.Name
	case *EField:
		if id, ok := e.X.(*EIdent); ok {
			return id.Name + "." + e.Name
		}
	}
	return ""
}

var typeArgBuiltins = map[string]int{"decoded": 1, "dyntype": 1, "unbox": 1, "box": 1, "zero": 0, "marshaled": 1}

func (p *parser) primary() Expr {
	t := p.next()
	switch t.k {
	case "num":
		return &ENum{t.s}
	case "str":
		return &EStr{t.s}
	case "id":
		if p.isOp("(") && !(t.s == "forall" || t.s == "exists") {
			p.next()
			c := &ECall{Fn: t.s}
			argi := 0
			for !p.isOp(")") {
				if pos, ok := typeArgBuiltins[t.s]; ok && pos == argi {
					c.TypeArg = p.typeText(",", ")")
				} else {
					c.Args = append(c.Args, p.expr())
				}
				argi++
				if p.isOp(",") {
					p.next()
				}
			}
			p.expectOp(")")
			return c
		}
		return &EIdent{t.s}
	case "op":
		if t.s == "(" {
			e := p.expr()
			p.expectOp(")")
			return e
		}
		if t.s == "*" || t.s == "&" {
			// pointer type name in a message pattern, e.g. *hagallpb.X{...}: ignore the star
			return p.postfix()
		}
	}
	panic(fmt.Errorf("unexpected token %q in %q", t.s, p.src))
}

// ---------- contract file parser ----------

var clauseKeywords = map[string]bool{
	"spec": true, "uf": true, "func": true, "type": true, "requires": true, "ensures": true,
	"modifies": true, "allocates": true, "event": true, "behaviour": true, "assumes": true,
	"emits": true, "complete": true, "disjoint": true, "loop": true, "invariant": true,
	"calls": true, "property": true, "guarded_by": true, "lock_level": true, "immutable": true,
	"confined": true, "let": true, "trusted": true, "lemma": true, "decreases": true, "noinline": true,
	"with": true, "panics": true, "ghost": true, "update": true, "trusted_ensures": true, "goroutine": true, "once_body": true, "preserves": true, "assume_nonblocking": true,
}

type rawClause struct {
	kw   string
	text string
	line int
}

func splitClauses(content string) []rawClause {
	var out []rawClause
	for i, line := range strings.Split(content, "\n") {
		l := strings.TrimSpace(line)
		if !strings.HasPrefix(l, "//@") {
			continue
		}
		l = strings.TrimSpace(strings.TrimPrefix(l, "//@"))
		if l == "" || strings.HasPrefix(l, "#") {
			continue
		}
		// strip trailing comment  " // ..."
		if k := strings.Index(l, " // "); k >= 0 {
			l = strings.TrimSpace(l[:k])
		}
		first := l
		if k := strings.IndexAny(l, " \t:{["); k >= 0 {
			first = l[:k]
		}
		if clauseKeywords[first] {
			out = append(out, rawClause{first, strings.TrimSpace(l[len(first):]), i + 1})
		} else if len(out) > 0 {
			out[len(out)-1].text += " " + l
		} else {
			panic(fmt.Errorf("line %d: continuation without clause: %s", i+1, l))
		}
	}
	return out
}

// parseTags strips a leading {C01,C02} tag set.
func parseTags(text string) ([]string, string) {
	text = strings.TrimSpace(text)
	if strings.HasPrefix(text, "{") {
		k := strings.Index(text, "}")
		if k > 0 {
			inner := text[1:k]
			ok := true
			var tags []string
			for _, t := range strings.FieldsFunc(inner, func(r rune) bool { return r == ',' || r == ' ' }) {
				if len(t) < 3 || t[0] != 'C' {
					ok = false
				}
				tags = append(tags, t)
			}
			if ok && len(tags) > 0 {
				return tags, strings.TrimSpace(text[k+1:])
			}
		}
	}
	return nil, text
}

func mustExpr(text string, where string) Expr {
	e, err := parseExprText(text)
	if err != nil {
		panic(fmt.Errorf("%s: %v", where, err))
	}
	return e
}

func parseEmits(text string, where string) []EventPat {
	text = strings.TrimSpace(text)
	if !strings.HasPrefix(text, "[") || !strings.HasSuffix(text, "]") {
		panic(fmt.Errorf("%s: emits list must be [ ... ]: %s", where, text))
	}
	inner := strings.TrimSpace(text[1 : len(text)-1])
	if inner == "" {
		return []EventPat{}
	}
	// split on top-level ';'
	var items []string
	depth := 0
	start := 0
	inStr := false
	for i := 0; i < len(inner); i++ {
		c := inner[i]
		if c == '"' {
			inStr = !inStr
		}
		if inStr {
			continue
		}
		switch c {
		case '(', '[', '{':
			depth++
		case ')', ']', '}':
			depth--
		case ';':
			if depth == 0 {
				items = append(items, inner[start:i])
				start = i + 1
			}
		}
	}
	items = append(items, inner[start:])
	out := []EventPat{}
	for _, it := range items {
		it = strings.TrimSpace(it)
		if it == "" {
			continue
		}
		var cond Expr
		atLeast := false
		maybe := false
		if strings.HasPrefix(it, "maybe ") {
			maybe = true
			it = "when true " + strings.TrimPrefix(it, "maybe ")
		}
		if strings.HasPrefix(it, "atleastwhen ") {
			atLeast = true
			it = "when " + strings.TrimPrefix(it, "atleastwhen ")
		}
		// "when COND: event"
		if strings.HasPrefix(it, "when ") {
			// find top-level ':' that ends condition — use " : " separator convention "when c => ev"
			k := strings.Index(it, "=>>")
			if k < 0 {
				panic(fmt.Errorf("%s: conditional event needs 'when COND =>> EVENT': %s", where, it))
			}
			cond = mustExpr(strings.TrimSpace(it[5:k]), where)
			it = strings.TrimSpace(it[k+3:])
		}
		e := mustExpr(it, where)
		c, ok := e.(*ECall)
		if !ok {
			panic(fmt.Errorf("%s: event pattern must be kind(args): %s", where, it))
		}
		out = append(out, EventPat{Kind: c.Fn, Args: c.Args, Cond: cond, Text: it, AtLeast: atLeast, Maybe: maybe})
	}
	return out
}

func parseParams(s string) []QVar {
	s = strings.TrimSpace(s)
	if s == "" {
		return nil
	}
	var out []QVar
	depth := 0
	start := 0
	var parts []string
	for i := 0; i < len(s); i++ {
		switch s[i] {
		case '[', '(':
			depth++
		case ']', ')':
			depth--
		case ',':
			if depth == 0 {
				parts = append(parts, s[start:i])
				start = i + 1
			}
		}
	}
	parts = append(parts, s[start:])
	for _, p := range parts {
		p = strings.TrimSpace(p)
		k := strings.IndexAny(p, " \t")
		if k < 0 {
			panic(fmt.Errorf("bad parameter %q", p))
		}
		out = append(out, QVar{p[:k], strings.TrimSpace(p[k:])})
	}
	return out
}

func parseSpecFile(path string, pkg string) (sf *SpecFile, err error) {
	data, err := os.ReadFile(path)
	if err != nil {
		return nil, err
	}
	defer func() {
		if r := recover(); r != nil {
			if er, ok := r.(error); ok {
				err = fmt.Errorf("%s: %v", path, er)
				return
			}
			panic(r)
		}
	}()
	sf = &SpecFile{Path: path, Pkg: pkg}
	var cur *FuncSpec
	var curT *TypeSpec
	var curB *Behaviour
	var curL *LoopSpec
	var curC *CallsSpec
	counts := map[string]int{}
	for _, rc := range splitClauses(string(data)) {
		where := fmt.Sprintf("%s:%d", filepath.Base(path), rc.line)
		switch rc.kw {
		case "spec":
			// spec fn name(params) ret = expr
			t := strings.TrimSpace(strings.TrimPrefix(rc.text, "fn"))
			lp := strings.Index(t, "(")
			name := strings.TrimSpace(t[:lp])
			// find matching paren
			depth := 0
			rp := -1
			for i := lp; i < len(t); i++ {
				if t[i] == '(' {
					depth++
				}
				if t[i] == ')' {
					depth--
					if depth == 0 {
						rp = i
						break
					}
				}
			}
			eq := strings.Index(t[rp:], "=")
			ret := strings.TrimSpace(t[rp+1 : rp+eq])
			body := strings.TrimSpace(t[rp+eq+1:])
			sf.SpecFns = append(sf.SpecFns, &SpecFn{Name: name, Params: parseParams(t[lp+1 : rp]), Ret: ret, Body: mustExpr(body, where), Text: body, File: path, Pkg: pkg})
			cur, curT = nil, nil
		case "uf":
			t := rc.text
			inj := false
			if strings.HasSuffix(t, "injective") {
				inj = true
				t = strings.TrimSpace(strings.TrimSuffix(t, "injective"))
			}
			lp := strings.Index(t, "(")
			rp := strings.LastIndex(t, ")")
			var ps []string
			for _, q := range strings.Split(t[lp+1:rp], ",") {
				if strings.TrimSpace(q) != "" {
					ps = append(ps, strings.TrimSpace(q))
				}
			}
			sf.UFs = append(sf.UFs, &UFDecl{Name: strings.TrimSpace(t[:lp]), Params: ps, Ret: strings.TrimSpace(t[rp+1:]), Injective: inj, Pkg: pkg})
			cur, curT = nil, nil
		case "lemma":
			k := strings.Index(rc.text, ":")
			name := strings.TrimSpace(rc.text[:k])
			tags, body := parseTags(rc.text[k+1:])
			sf.Lemmas = append(sf.Lemmas, &LemmaSpec{Name: name, X: mustExpr(body, where), Text: body, Tags: tags, Pkg: pkg})
			cur, curT = nil, nil
		case "func":
			cur = &FuncSpec{Key: strings.TrimSpace(rc.text), File: path, Loops: map[int]*LoopSpec{}}
			sf.Funcs = append(sf.Funcs, cur)
			curT, curB, curL, curC = nil, nil, nil, nil
			counts = map[string]int{}
		case "type":
			curT = &TypeSpec{Key: strings.TrimSpace(rc.text), LockLevels: map[string]int{}}
			sf.Types = append(sf.Types, curT)
			cur = nil
		case "guarded_by":
			k := strings.Index(rc.text, ":")
			fs := strings.FieldsFunc(rc.text[:k], func(r rune) bool { return r == ',' || r == ' ' })
			rest := strings.Fields(rc.text[k+1:])
			g := GuardSpec{Fields: fs, Mutex: rest[0], Mode: "rw"}
			curT.Guards = append(curT.Guards, g)
		case "lock_level":
			parts := strings.Split(rc.text, "=")
			n, _ := strconv.Atoi(strings.TrimSpace(parts[1]))
			curT.LockLevels[strings.TrimSpace(parts[0])] = n
		case "immutable":
			// immutable f1, f2 : Writer1, Writer2   (fields written only by the named functions / on fresh objects)
			k := strings.Index(rc.text, ":")
			var writers []string
			fields := rc.text
			if k >= 0 {
				writers = strings.FieldsFunc(rc.text[k+1:], func(r rune) bool { return r == ',' || r == ' ' })
				fields = rc.text[:k]
			}
			if curT.Immutable == nil {
				curT.Immutable = map[string][]string{}
			}
			for _, f := range strings.FieldsFunc(fields, func(r rune) bool { return r == ',' || r == ' ' }) {
				curT.Immutable[f] = writers
			}
		case "confined":
			k := strings.Index(rc.text, ":")
			if k < 0 {
				panic(fmt.Errorf("%s: confined FIELDS : GOROUTINE", where))
			}
			if curT.Confined == nil {
				curT.Confined = map[string]string{}
			}
			for _, f := range strings.FieldsFunc(rc.text[:k], func(r rune) bool { return r == ',' || r == ' ' }) {
				curT.Confined[f] = strings.TrimSpace(rc.text[k+1:])
			}
		case "property":
			cur.Tags = append(cur.Tags, strings.FieldsFunc(rc.text, func(r rune) bool { return r == ',' || r == ' ' })...)
		case "let":
			k := strings.Index(rc.text, "=")
			cur.Lets = append(cur.Lets, LetBind{strings.TrimSpace(rc.text[:k]), mustExpr(rc.text[k+1:], where), rc.text[k+1:]})
		case "requires", "ensures", "assumes", "invariant":
			tags, body := parseTags(rc.text)
			counts[rc.kw]++
			cl := &Clause{Kind: rc.kw, Text: body, X: mustExpr(body, where), Tags: tags, N: counts[rc.kw]}
			switch rc.kw {
			case "requires":
				cur.Requires = append(cur.Requires, cl)
			case "ensures":
				if curC != nil {
					panic(fmt.Errorf("%s: use 'with' for callback argument constraints", where))
				}
				if curB != nil {
					cl.N = len(curB.Ensures) + 1
					curB.Ensures = append(curB.Ensures, cl)
				} else {
					cur.Ensures = append(cur.Ensures, cl)
				}
			case "assumes":
				if curB == nil {
					panic(fmt.Errorf("%s: assumes outside behaviour", where))
				}
				curB.Assumes = append(curB.Assumes, cl)
			case "invariant":
				if curL == nil {
					panic(fmt.Errorf("%s: invariant outside loop", where))
				}
				cl.N = len(curL.Invariants) + 1
				curL.Invariants = append(curL.Invariants, cl)
			}
		case "trusted_ensures":
			tags, body := parseTags(rc.text)
			cur.TrustedEnsures = append(cur.TrustedEnsures, &Clause{Kind: "trusted_ensures", Text: body, X: mustExpr(body, where), Tags: tags, N: len(cur.TrustedEnsures) + 1})
		case "with":
			if curC == nil {
				panic(fmt.Errorf("%s: with outside calls", where))
			}
			tags, body := parseTags(rc.text)
			curC.With = append(curC.With, &Clause{Kind: "with", Text: body, X: mustExpr(body, where), Tags: tags, N: len(curC.With) + 1})
		case "decreases":
			curL.Decreases = mustExpr(rc.text, where)
		case "ghost":
			if curL == nil {
				panic(fmt.Errorf("%s: ghost outside loop", where))
			}
			curL.Ghosts = append(curL.Ghosts, strings.FieldsFunc(rc.text, func(r rune) bool { return r == ',' || r == ' ' })...)
		case "update":
			if curL == nil {
				panic(fmt.Errorf("%s: update outside loop", where))
			}
			t := rc.text
			gu := GhostUpdate{Text: t}
			if k := strings.Index(t, " when "); k >= 0 {
				gu.Cond = mustExpr(t[k+6:], where)
				t = t[:k]
			}
			eq := strings.Index(t, "] =")
			lb := strings.Index(t, "[")
			gu.Ghost = strings.TrimSpace(t[:lb])
			gu.Key = mustExpr(t[lb+1:eq], where)
			gu.Val = mustExpr(t[eq+3:], where)
			curL.Updates = append(curL.Updates, gu)
		case "modifies":
			cur.HasMod = true
			mtags, mbody := parseTags(rc.text)
			cur.ModTags = append(cur.ModTags, mtags...)
			rc.text = mbody
			if strings.TrimSpace(rc.text) == "nothing" {
				break
			}
			for _, it := range splitTop(rc.text, ',') {
				it = strings.TrimSpace(it)
				mi := ModItem{Text: it}
				if k := strings.LastIndex(it, ") if "); k >= 0 && !strings.HasPrefix(it, "all ") {
					mi.Cond = mustExpr(it[k+5:], where)
					it = strings.TrimSpace(it[:k+1])
				}
				switch {
				case strings.HasPrefix(it, "all "):
					mi.Coarse = true
					mi.Raw = strings.TrimSpace(it[4:])
				case strings.HasPrefix(it, "contents(") && strings.HasSuffix(it, ")"):
					mi.Contents = true
					mi.X = mustExpr(it[len("contents("):len(it)-1], where)
				default:
					mi.X = mustExpr(it, where)
				}
				cur.Modifies = append(cur.Modifies, mi)
			}
		case "preserves":
			for _, it := range splitTop(rc.text, ',') {
				cur.Preserves = append(cur.Preserves, strings.TrimSpace(it))
			}
		case "allocates":
			cur.Allocates = true
		case "event":
			cur.Event = true
			cur.EventName = strings.TrimSpace(rc.text)
		case "trusted":
			cur.Trusted = true
		case "noinline":
			cur.NoInline = true
		case "assume_nonblocking":
			cur.AssumeNonBlocking = strings.TrimSpace(rc.text)
		case "once_body":
			cur.OnceBody = true
		case "goroutine":
			cur.Goroutine = strings.TrimSpace(rc.text)
		case "panics":
			cur.Panics = strings.TrimSpace(rc.text)
		case "behaviour":
			name := strings.TrimSuffix(strings.TrimSpace(rc.text), ":")
			curB = &Behaviour{Name: name}
			cur.Behaviours = append(cur.Behaviours, curB)
			curL, curC = nil, nil
		case "emits":
			tags, body := parseTags(rc.text)
			if curL != nil {
				for _, alt := range splitAlts(body) {
					curL.EmitAlts = append(curL.EmitAlts, parseEmits(alt, where))
				}
				curL.Emits = curL.EmitAlts[0]
				curL.HasEmits = true
				curL.EmitTags = tags
			} else if curB != nil {
				curB.Emits = parseEmits(body, where)
				curB.HasEmits = true
				curB.EmitTags = tags
			} else {
				cur.Emits = parseEmits(body, where)
				cur.HasEmits = true
				cur.EmitTags = tags
			}
		case "complete":
			cur.Complete = true
			curB = nil
		case "disjoint":
			cur.Disjoint = true
			curB = nil
		case "loop":
			n, err := strconv.Atoi(strings.TrimSuffix(strings.TrimSpace(rc.text), ":"))
			if err != nil {
				panic(fmt.Errorf("%s: bad loop ordinal %q", where, rc.text))
			}
			curL = &LoopSpec{N: n}
			cur.Loops[n] = curL
			curB, curC = nil, nil
		case "calls":
			// calls h(ids) when COND
			t := rc.text
			cs := &CallsSpec{Text: t}
			if k := strings.Index(t, " holding "); k >= 0 {
				cs.Holding = strings.FieldsFunc(t[k+9:], func(r rune) bool { return r == ',' || r == ' ' })
				t = t[:k]
			}
			if k := strings.Index(t, " when "); k >= 0 {
				cs.When = mustExpr(t[k+6:], where)
				t = t[:k]
			}
			lp := strings.Index(t, "(")
			rp := strings.LastIndex(t, ")")
			cs.Param = strings.TrimSpace(t[:lp])
			for _, a := range strings.Split(t[lp+1:rp], ",") {
				if strings.TrimSpace(a) != "" {
					cs.Args = append(cs.Args, strings.TrimSpace(a))
				}
			}
			cur.Calls = append(cur.Calls, cs)
			curC = cs
			curB, curL = nil, nil
		}
	}
	return sf, nil
}

func splitTop(s string, sep byte) []string {
	var parts []string
	depth := 0
	start := 0
	for i := 0; i < len(s); i++ {
		switch s[i] {
		case '(', '[', '{':
			depth++
		case ')', ']', '}':
			depth--
		default:
			if s[i] == sep && depth == 0 {
				parts = append(parts, s[start:i])
				start = i + 1
			}
		}
	}
	parts = append(parts, s[start:])
	return parts
}

// splitAlts splits "[a; b] | [c]" into its bracketed alternatives.
func splitAlts(text string) []string {
	var out []string
	depth := 0
	start := 0
	for i := 0; i < len(text); i++ {
		switch text[i] {
		case '[', '(', '{':
			depth++
		case ']', ')', '}':
			depth--
		case '|':
			if depth == 0 && !(i+1 < len(text) && text[i+1] == '|') && !(i > 0 && text[i-1] == '|') {
				out = append(out, strings.TrimSpace(text[start:i]))
				start = i + 1
			}
		}
	}
	out = append(out, strings.TrimSpace(text[start:]))
	return out
}

package main

import (
	"bytes"
	"context"
	"fmt"
	"os"
	"os/exec"
	"path/filepath"
	"sort"
	"strings"
	"sync"
	"time"
)

type OblResult struct {
	Func      string
	Name      string
	Tags      []string
	Status    string // discharged | failed | unknown | static-fail
	Solver    string
	Instances int
	TimeMS    int64
	Desc      string
	Detail    string // solver output / reason
	Model     string
	CrossChecked int // instances re-checked (unsat) by a second solver
	Disagree  string
	Query     string // path of an SMT file reproducing the failure
}

type instance struct {
	path *PathResult
	obl  *Obl
	res  string // unsat | sat | unknown | error
	by   string
	ms   int64
	out  string
	cross string
	disagree string
}

type SolveOpts struct {
	TimeoutMS int
	WorkDir   string
	Workers   int
	Tags      map[string]bool // only obligations carrying one of these tags (nil = all)
	KeepFiles bool
	Select    func(o *Obl) bool // overrides Tags when set
	CrossCheck bool // thorough: re-check discharged instances on a second solver; sat there is a disagreement
}

var solverCmds = map[string][]string{
	"z3-new": {"z3-new", "-smt2"},
	"z3":     {"z3", "-smt2"},
	"cvc5":   {"cvc5", "--lang=smt2", "--incremental"},
}

func preamble(solver string, timeoutMS int) string {
	switch solver {
	case "cvc5":
		return "(set-option :produce-models true)\n(set-logic ALL)\n"
	}
	return fmt.Sprintf("(set-option :timeout %d)\n", timeoutMS)
}

func runSolver(solver string, script string, timeoutMS int, nqueries int, dir string, tag string) (lines []string, raw string, elapsed time.Duration) {
	args := append([]string(nil), solverCmds[solver]...)
	if solver == "cvc5" {
		args = append(args, fmt.Sprintf("--tlimit-per=%d", timeoutMS))
	}
	file := filepath.Join(dir, tag+"."+solver+".smt2")
	if err := os.WriteFile(file, []byte(preamble(solver, timeoutMS)+script), 0o644); err != nil {
		return nil, err.Error(), 0
	}
	args = append(args, file)
	ctx, cancel := context.WithTimeout(context.Background(), time.Duration(timeoutMS*(nqueries+1)+5000)*time.Millisecond)
	defer cancel()
	cmd := exec.CommandContext(ctx, args[0], args[1:]...)
	var out bytes.Buffer
	cmd.Stdout = &out
	cmd.Stderr = &out
	t0 := time.Now()
	_ = cmd.Run()
	elapsed = time.Since(t0)
	raw = out.String()
	for _, l := range strings.Split(raw, "\n") {
		l = strings.TrimSpace(l)
		if l == "sat" || l == "unsat" || l == "unknown" || l == "timeout" {
			if l == "timeout" {
				l = "unknown"
			}
			lines = append(lines, l)
		} else if strings.HasPrefix(l, "(error") {
			lines = append(lines, "error: "+l)
		}
	}
	return
}

func selectedBy(o *Obl, opts SolveOpts) bool {
	if opts.Select != nil {
		return opts.Select(o)
	}
	return selected(o, opts.Tags)
}

func selected(o *Obl, tags map[string]bool) bool {
	if tags == nil {
		return true
	}
	for _, t := range o.Tags {
		if tags[t] {
			return true
		}
	}
	return false
}

// solveFunc discharges the obligations of one function result.
func solveFunc(fr *FuncResult, opts SolveOpts) []*OblResult {
	if strings.Contains(fr.Key, implSep+"(") {
		// body of an implementation against the interface contract: only the interface clauses and the frame are
		// claimed here; safety and callee preconditions belong to the method's own verification
		opts.Select = func(o *Obl) bool {
			return strings.HasPrefix(o.Name, "post:") || strings.HasPrefix(o.Name, "frame:") || strings.HasPrefix(o.Name, "inv-")
		}
	}
	decls := fr.Decls.Text()
	var insts []*instance
	type job struct {
		pi    int
		insts []*instance
	}
	var jobs []job
	for pi, p := range fr.Paths {
		var ji []*instance
		for oi := range p.Obls {
			o := &p.Obls[oi]
			if !selectedBy(o, opts) {
				continue
			}
			in := &instance{path: p, obl: o}
			insts = append(insts, in)
			if o.Static != "" {
				if o.Static == "ok" {
					in.res, in.by = "unsat", "static"
				} else {
					in.res, in.by, in.out = "sat", "static", o.Static
				}
				continue
			}
			if o.Goal.S == "true" {
				in.res, in.by = "unsat", "trivial"
				continue
			}
			ji = append(ji, in)
		}
		if len(ji) > 0 {
			jobs = append(jobs, job{pi, ji})
		}
	}
	var wg sync.WaitGroup
	sem := make(chan struct{}, opts.Workers)
	fkey := sanitize(fr.Key)
	retries := map[string]int{}
	crossN := map[string]int{}
	const crossCap = 6
	var retryMu sync.Mutex
	if fr.DeclsQF == "" {
		fr.DeclsQF = fr.Decls.TextQF()
	}
	for _, j := range jobs {
		j := j
		wg.Add(1)
		sem <- struct{}{}
		go func() {
			defer wg.Done()
			defer func() { <-sem }()
			sort.SliceStable(j.insts, func(a, c int) bool { return j.insts[a].obl.PCLen < j.insts[c].obl.PCLen })
			tag := fmt.Sprintf("%s.p%d", fkey, j.pi)
			isQF := func(t string) bool { return !strings.Contains(t, "(forall ") && !strings.Contains(t, "(exists ") }
			// phase A: quantifier-free relaxation (fewer hypotheses; unsat here is a valid proof)
			{
				var b strings.Builder
				b.WriteString(fr.DeclsQF)
				pcDone := 0
				var asked []*instance
				for _, in := range j.insts {
					for ; pcDone < in.obl.PCLen; pcDone++ {
						if t := in.path.PC[pcDone].S; isQF(t) {
							fmt.Fprintf(&b, "(assert %s)\n", t)
						}
					}
					if !isQF(in.obl.Goal.S) {
						continue
					}
					fmt.Fprintf(&b, "(push 1)\n(assert (not %s))\n(check-sat)\n(pop 1)\n", in.obl.Goal.S)
					asked = append(asked, in)
				}
				if len(asked) > 0 {
					lines, _, el := runSolver("z3-new", b.String(), 2000, len(asked), opts.WorkDir, tag+".qf")
					for k, in := range asked {
						if k < len(lines) && lines[k] == "unsat" {
							in.res, in.by = "unsat", "z3-new(qf)"
							in.ms = el.Milliseconds() / int64(len(asked))
						}
					}
				}
			}
			// phase B: full incremental script for what is left
			var rest []*instance
			for _, in := range j.insts {
				if in.res != "unsat" {
					rest = append(rest, in)
				}
			}
			if len(rest) > 0 {
				var b strings.Builder
				b.WriteString(decls)
				pcDone := 0
				for _, in := range rest {
					for ; pcDone < in.obl.PCLen; pcDone++ {
						fmt.Fprintf(&b, "(assert %s)\n", in.path.PC[pcDone].S)
					}
					fmt.Fprintf(&b, "(push 1)\n(assert (not %s))\n(check-sat)\n(pop 1)\n", in.obl.Goal.S)
				}
				lines, raw, el := runSolver("z3-new", b.String(), opts.TimeoutMS, len(rest), opts.WorkDir, tag)
				for k, in := range rest {
					in.by = "z3-new"
					in.ms += el.Milliseconds() / int64(len(rest))
					if k < len(lines) {
						in.res = lines[k]
					} else {
						in.res = "unknown"
						in.out = trunc(raw, 400)
					}
					if strings.HasPrefix(in.res, "error") {
						in.out = in.res
						in.res = "error"
					}
				}
			}
			// phase C: retry undecided ones individually on the other solvers (bounded per obligation name)
			for k, in := range rest {
				if in.res == "unsat" || in.res == "sat" {
					continue
				}
				retryMu.Lock()
				n := retries[in.obl.Name]
				retries[in.obl.Name] = n + 1
				retryMu.Unlock()
				if n >= 2 {
					continue
				}
				script := singleQuery(decls, in)
				for _, s := range []string{"cvc5", "z3"} {
					ls, raw2, el2 := runSolver(s, script, opts.TimeoutMS, 1, opts.WorkDir, fmt.Sprintf("%s.o%d", tag, k))
					in.ms += el2.Milliseconds()
					if len(ls) > 0 && (ls[0] == "unsat" || ls[0] == "sat") {
						in.res, in.by = ls[0], s
						break
					}
					if len(ls) > 0 && strings.HasPrefix(ls[0], "error") {
						in.out += " | " + s + ": " + ls[0]
					} else if len(ls) == 0 {
						in.out += " | " + s + ": " + trunc(raw2, 200)
					}
				}
			}
			// thorough tier: second opinion on discharged instances
			if opts.CrossCheck {
				for k, in := range j.insts {
					if in.res != "unsat" || in.by == "static" || in.by == "trivial" {
						continue
					}
					// at most crossCap instances per obligation name (the instances of one name differ
					// only in the path they sit on)
					retryMu.Lock()
					cn := crossN[in.obl.Name]
					crossN[in.obl.Name] = cn + 1
					retryMu.Unlock()
					if cn >= crossCap {
						continue
					}
					script := singleQuery(decls, in)
					other := "cvc5"
					ls, _, _ := runSolver(other, script, 8000, 1, opts.WorkDir, fmt.Sprintf("%s.x%d", tag, k))
					if len(ls) > 0 && ls[0] == "unsat" {
						in.cross = other
					} else if len(ls) > 0 && ls[0] == "sat" {
						in.disagree = other + " answers sat where " + in.by + " answered unsat"
					} else {
						// cvc5 undecided: ask z3 4.8.12
						ls2, _, _ := runSolver("z3", script, 8000, 1, opts.WorkDir, fmt.Sprintf("%s.y%d", tag, k))
						if len(ls2) > 0 && ls2[0] == "unsat" {
							in.cross = "z3"
						} else if len(ls2) > 0 && ls2[0] == "sat" {
							in.disagree = "z3 4.8.12 answers sat where " + in.by + " answered unsat"
						}
					}
				}
			}
			if !opts.KeepFiles {
				files, _ := filepath.Glob(filepath.Join(opts.WorkDir, tag+".*"))
				for _, f := range files {
					os.Remove(f)
				}
			}
		}()
	}
	wg.Wait()
	// aggregate by obligation name
	byName := map[string]*OblResult{}
	var order []string
	for _, in := range insts {
		r := byName[in.obl.Name]
		if r == nil {
			r = &OblResult{Func: fr.Key, Name: in.obl.Name, Tags: in.obl.Tags, Status: "discharged", Desc: in.obl.Desc}
			byName[in.obl.Name] = r
			order = append(order, in.obl.Name)
		}
		r.Instances++
		r.TimeMS += in.ms
		if r.Solver == "" || in.by != "static" && in.by != "trivial" {
			r.Solver = in.by
		}
		if in.cross != "" {
			r.CrossChecked++
		}
		if in.disagree != "" && r.Disagree == "" {
			r.Disagree = in.disagree
		}
		switch in.res {
		case "unsat":
		case "sat":
			if r.Status != "failed" {
				r.Status = "failed"
				r.Solver = in.by
				r.Detail = in.out + " | path: " + in.path.Trace
				if in.by == "static" {
					r.Status = "static-fail"
				} else {
					r.Query, r.Model = saveCounterexample(decls, in, opts.WorkDir, fkey, in.obl.Name)
				}
				r.Desc = in.obl.Desc
			}
		default:
			if r.Status == "discharged" {
				r.Status = "unknown"
				r.Detail = "solver answer: " + in.res + " " + in.out + " | path: " + in.path.Trace
				r.Query, _ = saveQuery(decls, in, opts.WorkDir, fkey, in.obl.Name)
			}
		}
	}
	var out []*OblResult
	for _, n := range order {
		out = append(out, byName[n])
	}
	return out
}

func singleQuery(decls string, in *instance) string {
	var b strings.Builder
	b.WriteString(decls)
	for i := 0; i < in.obl.PCLen; i++ {
		fmt.Fprintf(&b, "(assert %s)\n", in.path.PC[i].S)
	}
	fmt.Fprintf(&b, "(assert (not %s))\n(check-sat)\n", in.obl.Goal.S)
	return b.String()
}

func saveQuery(decls string, in *instance, dir, fkey, name string) (string, error) {
	file := filepath.Join(dir, "fail."+fkey+"."+sanitize(name)+".smt2")
	err := os.WriteFile(file, []byte(singleQuery(decls, in)), 0o644)
	return file, err
}

func saveCounterexample(decls string, in *instance, dir, fkey, name string) (string, string) {
	file, _ := saveQuery(decls, in, dir, fkey, name)
	script := singleQuery(decls, in) + "(get-model)\n"
	mfile := filepath.Join(dir, "model."+fkey+"."+sanitize(name)+".smt2")
	os.WriteFile(mfile, []byte("(set-option :timeout 10000)\n"+script), 0o644)
	ctx, cancel := context.WithTimeout(context.Background(), 20*time.Second)
	defer cancel()
	out, _ := exec.CommandContext(ctx, "z3-new", "-smt2", mfile).CombinedOutput()
	os.Remove(mfile)
	return file, string(out)
}

// solveCovers checks reachability of behaviours / satisfiability of preconditions.
func solveCovers(fr *FuncResult, opts SolveOpts) map[string]string {
	out := map[string]string{}
	_ = fr.Decls
	var mu sync.Mutex
	var wg sync.WaitGroup
	sem := make(chan struct{}, opts.Workers)
	for name, cis := range fr.Covers {
		name, cis := name, cis
		wg.Add(1)
		sem <- struct{}{}
		go func() {
			defer wg.Done()
			defer func() { <-sem }()
			status := "unreachable"
			isQF := func(t string) bool { return !strings.Contains(t, "(forall ") && !strings.Contains(t, "(exists ") }
			qfDecls := fr.Decls.TextQF()
			fullDecls := fr.Decls.Text()
			for k, ci := range cis {
				// quantifier-free relaxation: unsat here means the behaviour cannot be reached on this path
				var b strings.Builder
				b.WriteString(qfDecls)
				for _, t := range ci.PC {
					if isQF(t.S) {
						fmt.Fprintf(&b, "(assert %s)\n", t.S)
					}
				}
				if isQF(ci.Cond.S) {
					fmt.Fprintf(&b, "(assert %s)\n", ci.Cond.S)
				}
				b.WriteString("(check-sat)\n")
				tag := fmt.Sprintf("%s.cover%s.%d", sanitize(fr.Key), sanitize(name), k)
				ls, _, _ := runSolver("z3-new", b.String(), 1500, 1, opts.WorkDir, tag)
				files, _ := filepath.Glob(filepath.Join(opts.WorkDir, tag+".*"))
				for _, f := range files {
					os.Remove(f)
				}
				if len(ls) == 0 || (ls[0] != "unsat" && ls[0] != "sat") {
					status = "not-refuted"
					break
				}
				if ls[0] == "unsat" {
					continue
				}
				// feasible without the quantified hypotheses: they must not refute the path either
				// (a contradiction among callee contracts, typing axioms and trusted clauses would make
				// every obligation on the path hold vacuously)
				var fb strings.Builder
				fb.WriteString(fullDecls)
				for _, t := range ci.PC {
					fmt.Fprintf(&fb, "(assert %s)\n", t.S)
				}
				fmt.Fprintf(&fb, "(assert %s)\n", ci.Cond.S)
				fb.WriteString("(check-sat)\n")
				ftag := tag + ".full"
				fls, _, _ := runSolver("z3-new", fb.String(), 600, 1, opts.WorkDir, ftag)
				ffiles, _ := filepath.Glob(filepath.Join(opts.WorkDir, ftag+".*"))
				for _, f := range ffiles {
					os.Remove(f)
				}
				if len(fls) > 0 && fls[0] == "unsat" {
					status = "contradictory"
					continue
				}
				status = "reachable"
				break
			}
			mu.Lock()
			out[name] = status
			mu.Unlock()
		}()
	}
	wg.Wait()
	return out
}

// solveCanary (thorough tier): with the full hypotheses of each return path, `false` must not be provable
// on every path — otherwise the contract (requires, callee contracts, trusted clauses) is contradictory
// and every obligation of the function was discharged vacuously. Returns "consistent", "not-refuted"
// or "contradictory".
func solveCanary(fr *FuncResult, opts SolveOpts) string {
	if len(fr.Canaries) == 0 {
		return "no-return-path"
	}
	decls := fr.Decls.Text()
	status := "contradictory"
	var mu sync.Mutex
	var wg sync.WaitGroup
	sem := make(chan struct{}, opts.Workers)
	done := false
	for k, pc := range fr.Canaries {
		mu.Lock()
		d := done
		mu.Unlock()
		if d {
			break
		}
		k, pc := k, pc
		wg.Add(1)
		sem <- struct{}{}
		go func() {
			defer wg.Done()
			defer func() { <-sem }()
			var b strings.Builder
			b.WriteString(decls)
			for _, t := range pc {
				fmt.Fprintf(&b, "(assert %s)\n", t.S)
			}
			b.WriteString("(check-sat)\n")
			tag := fmt.Sprintf("%s.canary%d", sanitize(fr.Key), k)
			ls, _, _ := runSolver("z3-new", b.String(), 3000, 1, opts.WorkDir, tag)
			files, _ := filepath.Glob(filepath.Join(opts.WorkDir, tag+".*"))
			for _, f := range files {
				os.Remove(f)
			}
			mu.Lock()
			defer mu.Unlock()
			if len(ls) > 0 && ls[0] == "sat" {
				status = "consistent"
				done = true
			} else if (len(ls) == 0 || ls[0] != "unsat") && status != "consistent" {
				status = "not-refuted"
				done = true
			}
		}()
	}
	wg.Wait()
	return status
}

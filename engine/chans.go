package main

import (
	"go/types"

	"golang.org/x/tools/go/ssa"
)

func chanElem(t types.Type) types.Type {
	return types.Unalias(t).Underlying().(*types.Chan).Elem()
}

func (x *Exec) chanReady(st *State, ch Val) Term {
	a := st.heapGet("ghost.chanready", ArrSort(SBool))
	return Select(a, ch.T())
}

// chanSend models ch <- v. A plain (blocking) send outside select raises a blocking obligation.
func (x *Exec) chanSend(st *State, ch Val, v Val, blocking bool) {
	if blocking {
		reason := ""
		if sp := x.eng.funcSpecs[funcKey(st.top().fn)]; sp != nil {
			reason = sp.AssumeNonBlocking
		}
		if reason == "" && st.top().fn.Parent() != nil {
			if sp := x.eng.funcSpecs[funcKey(st.top().fn.Parent())]; sp != nil {
				reason = sp.AssumeNonBlocking
			}
		}
		if reason != "" {
			x.assumeNote("A-nonblocking (" + funcKey(st.top().fn) + "): " + reason)
		} else {
			st.oblige("blocking:chansend:"+x.site("send"), []string{"C08"}, x.chanReady(st, ch), "channel send cannot block (receiver ready or buffer not full)")
		}
	}
	st.addEvent(Event{Kind: "chansend", Args: []Val{ch, v}})
}

// isCtxDone: the channel is the result of a (context.Context).Done call - waiting on it is waiting for
// cancellation, which is what the code means to do.
func isCtxDone(v ssa.Value) bool {
	c, ok := v.(*ssa.Call)
	if !ok {
		return false
	}
	if c.Call.IsInvoke() {
		return c.Call.Method.Name() == "Done" && c.Call.Method.Pkg() != nil && c.Call.Method.Pkg().Path() == "context"
	}
	return false
}

// chanRecv models a plain receive <-ch outside select. It waits until a value arrives: unless the channel is
// known to hold a value (its len() was just observed non-zero on this path; A-chanlen: no competing receiver)
// or it is a context's Done channel, that is a blocking obligation (C08: the connection loop and the
// handlers must not wait on a channel nobody is bound to feed).
func (x *Exec) chanRecv(st *State, in *ssa.UnOp, ch Val) {
	if !isCtxDone(in.X) {
		goal := x.chanReady(st, ch)
		if l, ok := st.chanLens[ch.T().S]; ok {
			goal = Or(goal, Gt(l, TZero))
			x.assumeNote("A-chanlen: a channel whose len() was just observed non-zero holds a value for a plain receive (no competing receiver)")
		}
		st.oblige("blocking:chanrecv:"+x.site("recv"), []string{"C08"}, goal, "a plain channel receive cannot block forever (a value is known to be buffered)")
	}
	v := st.symbolic(chanElem(ch.Typ), "recv")
	st.addEvent(Event{Kind: "chanrecv", Args: []Val{ch}})
	if in.CommaOk {
		st.set(in, Val{Typ: in.Type(), Sub: []Val{v, boolVal(st.fresh("recvok", SBool))}})
		return
	}
	st.set(in, v)
}

// selectOp: nondeterministic choice among ready cases; default iff none is ready.
func (x *Exec) selectOp(st *State, in *ssa.Select) {
	type scase struct {
		ch    Val
		send  Val
		dir   types.ChanDir
		ready Term
	}
	var cases []scase
	for _, s := range in.States {
		c := scase{ch: x.eval(st, s.Chan), dir: s.Dir}
		if s.Dir == types.SendOnly {
			c.send = x.eval(st, s.Send)
		}
		c.ready = x.chanReady(st, c.ch)
		cases = append(cases, c)
	}
	tt := in.Type().(*types.Tuple)
	mk := func(s *State, idx int) {
		sub := []Val{intVal(IntLit(int64(idx))), boolVal(s.fresh("recvok", SBool))}
		k := 2
		for i, c := range cases {
			if c.dir == types.RecvOnly {
				var v Val
				if i == idx {
					v = s.symbolic(tt.At(k).Type(), "recv")
				} else {
					v = zeroVal(tt.At(k).Type())
				}
				sub = append(sub, v)
				k++
			}
		}
		s.set(in, Val{Typ: in.Type(), Sub: sub})
	}
	var notReady []Term
	for i, c := range cases {
		s := st.clone()
		s.assume(c.ready)
		if c.dir == types.SendOnly {
			s.addEvent(Event{Kind: "chansend", Args: []Val{c.ch, c.send}})
		} else {
			s.addEvent(Event{Kind: "chanrecv", Args: []Val{c.ch}})
		}
		mk(s, i)
		x.pushWork(s)
		notReady = append(notReady, Not(c.ready))
	}
	if in.Blocking {
		// a blocking select waits until a case is ready: no further behaviour on this path
		st.dead = true
		return
	}
	st.assume(And(notReady...))
	mk(st, -1)
}

package main

import (
	"encoding/json"
	"fmt"
	"os"
)

// cmdReplay re-runs the saved query of a violation record and prints the record.
// exit 1 = the obligation still fails (or cannot be discharged), exit 0 = it discharges now.
func cmdReplay(args []string) int {
	if len(args) < 1 {
		fmt.Fprintln(os.Stderr, "usage: hvc replay <replay.json>")
		return 2
	}
	data, err := os.ReadFile(args[0])
	if err != nil {
		fmt.Fprintln(os.Stderr, err)
		return 2
	}
	var rec map[string]any
	if err := json.Unmarshal(data, &rec); err != nil {
		fmt.Fprintln(os.Stderr, err)
		return 2
	}
	fmt.Printf("property   : %v\nfunction   : %v\nobligation : %v\nreason     : %v\n", rec["property"], rec["function"], rec["obligation"], rec["reason"])
	if t, ok := rec["replay_test"].(string); ok && t != "" {
		fmt.Printf("replay test: %s\n", t)
		if out, ok := rec["replay_output"].(string); ok {
			fmt.Println(out)
		}
	}
	q, _ := rec["query_file"].(string)
	if q == "" {
		fmt.Println("no solver query attached (static or generation failure)")
		return 1
	}
	script, err := os.ReadFile(q)
	if err != nil {
		fmt.Println("query file missing:", err)
		return 1
	}
	dir, _ := os.MkdirTemp("", "hvc-replay")
	defer os.RemoveAll(dir)
	for _, s := range []string{"z3-new", "cvc5", "z3"} {
		ls, _, el := runSolver(s, string(script), 20000, 1, dir, "replay")
		ans := "no answer"
		if len(ls) > 0 {
			ans = ls[0]
		}
		fmt.Printf("%-7s: %s (%.1fs)\n", s, ans, el.Seconds())
		if ans == "unsat" {
			fmt.Println("the obligation discharges: no violation")
			return 0
		}
	}
	fmt.Println("the negated obligation is not refuted: violation stands")
	return 1
}

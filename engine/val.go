package main

import (
	"fmt"
	"go/types"
	"strings"
	"sync"

	"golang.org/x/tools/go/ssa"
)

// Comp is one SMT-level component of a Go value of some type.
type Comp struct {
	Suffix string
	Sort   Sort
	Typ    types.Type // leaf Go type
}

// Closure is a statically known function value.
type Closure struct {
	Fn       *ssa.Function
	Bindings []Val
	Builtin  string // engine-modelled function values ("cancel": the CancelFunc of context.WithCancel)
}

// Val is the symbolic value of a Go expression: a flat list of components.
type Val struct {
	Typ    types.Type
	C      []Term
	Prefix string   // pointers: name prefix of the heap arrays the pointee lives in
	Idx    *Term    // pointers to slice elements: index into the second array level
	Fn     *Closure // func values known statically
	Iter   *Iter    // range iterators
	Sub    []Val    // tuples
	Dec    *Decoded // spec-only: decoded message pseudo-struct
	Dyn    types.Type // interfaces: statically known dynamic type
	Inner  *Val       // interfaces: the boxed concrete value when statically known
	arrayLit *arrayLit
	Region string // maps: heap region (location class) the map object lives in; "" = by type
}

// arrayLit remembers that a slice was made from a compiler-built array (variadic calls).
type arrayLit struct {
	ref    Term
	prefix string
	n      int
	elem   types.Type
}

func structOf(t types.Type) *types.Struct { return types.Unalias(t).Underlying().(*types.Struct) }

// Iter is a range-over-map iterator.
type Iter struct {
	Map     Val
	Visited Term // (Array Int Bool)
	ID      int
	Count   Term // number of elements yielded so far
	MapWritten bool // the iterated map may be modified inside the loop
}

// Decoded denotes decoded(msg, T) and its sub-messages in specifications.
type Decoded struct {
	Body Term
	Root string // canonical type name of the root message
	Path string // field path below the root
	Typ  types.Type
}

func qualifier(p *types.Package) string {
	path := p.Path()
	switch {
	case strings.HasPrefix(path, "github.com/aukilabs/hagall/"):
		return strings.TrimPrefix(path, "github.com/aukilabs/hagall/")
	case strings.HasPrefix(path, "github.com/aukilabs/hagall-common/"):
		return "common/" + strings.TrimPrefix(path, "github.com/aukilabs/hagall-common/")
	case strings.HasPrefix(path, "google.golang.org/protobuf/"):
		return "pb/" + strings.TrimPrefix(path, "google.golang.org/protobuf/")
	}
	return path
}

func typeName(t types.Type) string {
	return types.TypeString(t, qualifier)
}

func isNamed(t types.Type, pkg, name string) bool {
	t = types.Unalias(t)
	n, ok := t.(*types.Named)
	if !ok {
		return false
	}
	o := n.Obj()
	return o.Name() == name && o.Pkg() != nil && o.Pkg().Path() == pkg
}

func isSyncType(t types.Type) bool {
	for _, n := range []string{"Mutex", "RWMutex", "Once", "WaitGroup"} {
		if isNamed(t, "sync", n) {
			return true
		}
	}
	return false
}

func isProtoInternal(t types.Type) bool {
	t = types.Unalias(t)
	n, ok := t.(*types.Named)
	if !ok {
		return false
	}
	if n.Obj().Pkg() == nil {
		return false
	}
	p := n.Obj().Pkg().Path()
	if p == "google.golang.org/protobuf/runtime/protoimpl" || p == "google.golang.org/protobuf/internal/impl" || p == "google.golang.org/protobuf/internal/pragma" {
		return true
	}
	return false
}

type unsupported struct{ msg string }

func (u unsupported) Error() string { return "unsupported: " + u.msg }

func unsupp(format string, args ...any) {
	panic(unsupported{fmt.Sprintf(format, args...)})
}

var compCache = map[types.Type][]Comp{}
var compMu sync.Mutex

// comps flattens a Go type into SMT components.
func comps(t types.Type) []Comp {
	compMu.Lock()
	c, ok := compCache[t]
	compMu.Unlock()
	if ok {
		return c
	}
	c = comps0(t)
	compMu.Lock()
	compCache[t] = c
	compMu.Unlock()
	return c
}

func comps0(t types.Type) []Comp {
	t0 := t
	t = types.Unalias(t)
	if isNamed(t, "time", "Time") {
		return []Comp{{"", SInt, t0}}
	}
	if isSyncType(t) || isProtoInternal(t) {
		return nil
	}
	switch u := t.Underlying().(type) {
	case *types.Basic:
		switch {
		case u.Info()&types.IsBoolean != 0:
			return []Comp{{"", SBool, t0}}
		case u.Info()&types.IsFloat != 0:
			return []Comp{{"", SReal, t0}}
		case u.Info()&types.IsComplex != 0:
			unsupp("complex type")
		}
		return []Comp{{"", SInt, t0}}
	case *types.Pointer, *types.Map, *types.Chan, *types.Signature, *types.Interface:
		return []Comp{{"", SInt, t0}}
	case *types.Slice:
		return []Comp{{"#a", SInt, t0}, {"#l", SInt, t0}}
	case *types.Struct:
		var out []Comp
		for i := 0; i < u.NumFields(); i++ {
			f := u.Field(i)
			if isProtoPlumbing(f) {
				continue
			}
			for _, c := range comps(f.Type()) {
				out = append(out, Comp{"." + f.Name() + c.Suffix, c.Sort, c.Typ})
			}
		}
		return out
	case *types.Array:
		if u.Len() > 16 {
			// long arrays (hashes, keys) are opaque values
			return []Comp{{"", SInt, t0}}
		}
		var out []Comp
		for i := int64(0); i < u.Len(); i++ {
			for _, c := range comps(u.Elem()) {
				out = append(out, Comp{fmt.Sprintf("[%d]%s", i, c.Suffix), c.Sort, c.Typ})
			}
		}
		return out
	case *types.Tuple:
		var out []Comp
		for i := 0; i < u.Len(); i++ {
			for _, c := range comps(u.At(i).Type()) {
				out = append(out, Comp{fmt.Sprintf("<%d>%s", i, c.Suffix), c.Sort, c.Typ})
			}
		}
		return out
	}
	unsupp("type %s", typeName(t))
	return nil
}

// fieldRange returns the component index range [lo,hi) of field i of struct type t.
// isProtoPlumbing: the unexported bookkeeping fields of generated protobuf structs.
func isProtoPlumbing(f *types.Var) bool {
	if f.Exported() || f.Pkg() == nil {
		return false
	}
	switch f.Name() {
	case "state", "sizeCache", "unknownFields":
		p := f.Pkg().Path()
		return strings.Contains(p, "/messages/") || strings.HasPrefix(p, "google.golang.org/protobuf")
	}
	return false
}

func fieldComps(f *types.Var) []Comp {
	if isProtoPlumbing(f) {
		return nil
	}
	return comps(f.Type())
}

func fieldRange(st *types.Struct, i int) (int, int) {
	lo := 0
	for j := 0; j < i; j++ {
		lo += len(fieldComps(st.Field(j)))
	}
	return lo, lo + len(fieldComps(st.Field(i)))
}

func elemRange(at *types.Array, i int) (int, int) {
	n := len(comps(at.Elem()))
	return i * n, (i + 1) * n
}

func tupleRange(tt *types.Tuple, i int) (int, int) {
	lo := 0
	for j := 0; j < i; j++ {
		lo += len(comps(tt.At(j).Type()))
	}
	return lo, lo + len(comps(tt.At(i).Type()))
}

// zeroVal is the Go zero value of type t.
func zeroVal(t types.Type) Val {
	cs := comps(t)
	v := Val{Typ: t}
	for _, c := range cs {
		switch c.Sort {
		case SBool:
			v.C = append(v.C, TFalse)
		case SReal:
			v.C = append(v.C, RealLit("0.0"))
		default:
			v.C = append(v.C, TZero)
		}
	}
	return v
}

func boolVal(t Term) Val { return Val{Typ: types.Typ[types.Bool], C: []Term{t}} }
func intVal(t Term) Val  { return Val{Typ: types.Typ[types.Int], C: []Term{t}} }

func (v Val) T() Term {
	if len(v.C) != 1 {
		panic(fmt.Sprintf("T() on value of type %s with %d components", typeName(v.Typ), len(v.C)))
	}
	return v.C[0]
}

func (v Val) Bool() Term {
	t := v.T()
	if t.Sort != SBool {
		panic("Bool() on non-bool term " + t.S)
	}
	return t
}

// sub-value for comps [lo,hi) with new type
func (v Val) slice(lo, hi int, t types.Type) Val {
	return Val{Typ: t, C: append([]Term(nil), v.C[lo:hi]...)}
}

// intRange returns lo, hi (inclusive) for integer basic kinds; ok=false otherwise.
func intRange(t types.Type) (lo, hi string, ok bool) {
	b, isb := types.Unalias(t).Underlying().(*types.Basic)
	if !isb {
		return "", "", false
	}
	switch b.Kind() {
	case types.Uint8:
		return "0", "255", true
	case types.Uint16:
		return "0", "65535", true
	case types.Uint32:
		return "0", "4294967295", true
	case types.Uint64, types.Uint, types.Uintptr:
		return "0", "18446744073709551615", true
	case types.Int8:
		return "(- 128)", "127", true
	case types.Int16:
		return "(- 32768)", "32767", true
	case types.Int32:
		return "(- 2147483648)", "2147483647", true
	case types.Int64, types.Int:
		return "(- 9223372036854775808)", "9223372036854775807", true
	}
	return "", "", false
}

func intModulus(t types.Type) (mod string, signed bool, ok bool) {
	b, isb := types.Unalias(t).Underlying().(*types.Basic)
	if !isb {
		return "", false, false
	}
	switch b.Kind() {
	case types.Uint8:
		return "256", false, true
	case types.Uint16:
		return "65536", false, true
	case types.Uint32:
		return "4294967296", false, true
	case types.Uint64, types.Uint, types.Uintptr:
		return "18446744073709551616", false, true
	case types.Int8:
		return "256", true, true
	case types.Int16:
		return "65536", true, true
	case types.Int32:
		return "4294967296", true, true
	case types.Int64, types.Int:
		return "18446744073709551616", true, true
	}
	return "", false, false
}

// typeConstraint returns the range/validity predicate of a term of Go type t
// (integers in range, references non-negative, lengths non-negative).
func typeConstraint(t types.Type, cs []Term) Term {
	var out []Term
	for i, c := range comps(t) {
		x := cs[i]
		if lo, hi, ok := intRange(c.Typ); ok && c.Suffix != "#a" && c.Suffix != "#l" && !strings.HasSuffix(c.Suffix, "#a") && !strings.HasSuffix(c.Suffix, "#l") {
			out = append(out, Le(Term{lo, SInt}, x), Le(x, Term{hi, SInt}))
			continue
		}
		if c.Sort == SInt {
			out = append(out, Ge(x, TZero))
			if strings.HasSuffix(c.Suffix, "#l") {
				out = append(out, Le(x, Term{"1099511627776", SInt}))
			}
		}
	}
	return And(out...)
}

package main

import (
	"fmt"
	"os"
	"go/ast"
	"go/constant"
	"go/token"
	"go/types"
	"sort"
	"strings"

	"golang.org/x/tools/go/ssa"
)

// PathResult is one finished symbolic path.
type PathResult struct {
	PC    []Term
	Obls  []Obl
	End   string // return | panic | backedge | stop
	Notes []string
	Trace string
}

// Exec verifies one function.
type Exec struct {
	eng        *Engine
	fn         *ssa.Function
	spec       *FuncSpec
	decls      *Decls
	baseArrays map[string]Sort
	wildDeclared map[string]bool
	wildSeq int
	nfresh     int
	work       []*State
	results    []*PathResult
	siteCount  map[string]int
	entry      *State
	params     map[string]Val
	loops      map[*ssa.BasicBlock]*loopInfo
	maxPaths   int
	npaths     int
	assumptions map[string]bool
	strlits    map[string]Term
	tags       map[string]int
	inlined    map[string]bool
	usedSpecs  map[string]bool
	lockOrderViol []string
	covers map[string][]coverInst
	leaf map[string]Comp
	pendingClosure *Closure
	quantDepth int
	curFlagGuard string
	canaries [][]Term
	curInstr ssa.Instruction
	ordTab map[*ssa.Function]map[ssa.Instruction]int
}

type loopInfo struct {
	header *ssa.BasicBlock
	blocks map[*ssa.BasicBlock]bool
	ord    int
}

func (x *Exec) fresh(hint string, s Sort) Term {
	x.nfresh++
	return x.decls.Const(fmt.Sprintf("%s!%d", sanitize(hint), x.nfresh), s)
}

func (x *Exec) assumeNote(s string) { x.assumptions[s] = true }

// strLit interns a Go string literal as an Int constant.
func (x *Exec) strLit(s string) Term {
	if s == "" {
		return TZero
	}
	if t, ok := x.strlits[s]; ok {
		return t
	}
	t := x.decls.Const(fmt.Sprintf("str!%d_%s", len(x.strlits)+1, sanitize(trunc(s, 24))), SInt)
	// distinct from every other literal and from ""
	for _, o := range x.strlits {
		x.decls.Axiom(Neq(t, o))
	}
	x.decls.Axiom(Gt(t, TZero))
	x.decls.Axiom(Eq(x.strlen(t), IntLit(int64(len(s)))))
	x.strlits[s] = t
	return t
}

func trunc(s string, n int) string {
	if len(s) > n {
		return s[:n]
	}
	return s
}

func (x *Exec) strlen(t Term) Term {
	f := x.decls.Fun("strlen", []Sort{SInt}, SInt)
	if _, ok := x.tags["$strlen_ax"]; !ok {
		x.tags["$strlen_ax"] = 1
		v := Term{"s!x", SInt}
		x.decls.Axiom(Forall([]Term{v}, Ge(app(SInt, f, v), TZero)))
		x.decls.Axiom(Forall([]Term{v}, Eq(Eq(app(SInt, f, v), TZero), Eq(v, TZero))))
	}
	return app(SInt, f, t)
}

func (x *Exec) typeTag(t types.Type) Term {
	n := typeName(t)
	id, ok := x.tags[n]
	if !ok {
		id = len(x.tags) + 100
		x.tags[n] = id
	}
	return IntLit(int64(id))
}

func (x *Exec) typeofFn() string { return x.decls.Fun("typeof", []Sort{SInt}, SInt) }

func (x *Exec) uf(name string, args []Sort, res Sort, ts ...Term) Term {
	f := x.decls.Fun(name, args, res)
	if len(args) == 0 {
		return Term{f, res}
	}
	return app(res, f, ts...)
}

// site names an obligation site: kind, plus the static ordinal of the current instruction among
// instructions of the same class in its function (stable across paths and unrelated edits), plus
// the function name when the instruction belongs to an inlined callee.
func (x *Exec) site(kind string) string {
	in := x.curInstr
	if in == nil {
		x.siteCount[kind]++
		return fmt.Sprintf("%s#%d", kind, x.siteCount[kind])
	}
	ord := x.staticOrd(in)
	if in.Parent() != x.fn {
		return fmt.Sprintf("%s#%d@%s", kind, ord, shortFuncName(funcKey(in.Parent())))
	}
	return fmt.Sprintf("%s#%d", kind, ord)
}

func instrClass(in ssa.Instruction) string {
	switch n := in.(type) {
	case *ssa.FieldAddr:
		return fmt.Sprintf("FieldAddr:%s.%d", typeName(n.X.Type()), n.Field)
	case *ssa.Call:
		c := n.Common()
		if c.IsInvoke() {
			return "invoke:" + c.Method.Name()
		}
		if f := c.StaticCallee(); f != nil {
			return "call:" + funcKey(f)
		}
		return "call:dyn"
	case *ssa.Defer:
		return "defer"
	}
	return fmt.Sprintf("%T", in)
}

func (x *Exec) staticOrd(in ssa.Instruction) int {
	fn := in.Parent()
	tab, ok := x.ordTab[fn]
	if !ok {
		tab = map[ssa.Instruction]int{}
		counts := map[string]int{}
		for _, b := range fn.Blocks {
			for _, i := range b.Instrs {
				c := instrClass(i)
				counts[c]++
				tab[i] = counts[c]
			}
		}
		x.ordTab[fn] = tab
	}
	return tab[in]
}

func funcKey(fn *ssa.Function) string {
	s := fn.String()
	s = strings.ReplaceAll(s, "github.com/aukilabs/hagall/", "")
	s = strings.ReplaceAll(s, "github.com/aukilabs/hagall-common/", "common/")
	s = strings.ReplaceAll(s, "google.golang.org/protobuf/", "pb/")
	return s
}

func inRepo(fn *ssa.Function) bool {
	if fn.Pkg != nil {
		return strings.HasPrefix(fn.Pkg.Pkg.Path(), "github.com/aukilabs/hagall/") || fn.Pkg.Pkg.Path() == "github.com/aukilabs/hagall"
	}
	// synthetic wrappers / bound methods / closures
	if p := fn.Parent(); p != nil {
		return inRepo(p)
	}
	if fn.Object() != nil && fn.Object().Pkg() != nil {
		return strings.HasPrefix(fn.Object().Pkg().Path(), "github.com/aukilabs/hagall/")
	}
	return false
}

// ---------- values ----------

func (x *Exec) constVal(c *ssa.Const) Val {
	t := c.Type()
	if c.Value == nil {
		return zeroVal(t)
	}
	switch c.Value.Kind() {
	case constant.Bool:
		if constant.BoolVal(c.Value) {
			return Val{Typ: t, C: []Term{TTrue}}
		}
		return Val{Typ: t, C: []Term{TFalse}}
	case constant.String:
		return Val{Typ: t, C: []Term{x.strLit(constant.StringVal(c.Value))}}
	case constant.Int:
		cs := comps(t)
		if len(cs) == 1 && cs[0].Sort == SReal {
			return Val{Typ: t, C: []Term{RealLit(c.Value.ExactString() + ".0")}}
		}
		s := c.Value.ExactString()
		if strings.HasPrefix(s, "-") {
			return Val{Typ: t, C: []Term{{"(- " + s[1:] + ")", SInt}}}
		}
		return Val{Typ: t, C: []Term{{s, SInt}}}
	case constant.Float:
		cs := comps(t)
		if len(cs) == 1 && cs[0].Sort == SInt {
			i, _ := constant.Int64Val(constant.ToInt(c.Value))
			return Val{Typ: t, C: []Term{IntLit(i)}}
		}
		return Val{Typ: t, C: []Term{ratLit(c.Value)}}
	}
	unsupp("constant %v", c)
	return Val{}
}

func ratLit(v constant.Value) Term {
	num := constant.Num(v)
	den := constant.Denom(v)
	ns := num.ExactString()
	neg := strings.HasPrefix(ns, "-")
	if neg {
		ns = ns[1:]
	}
	s := fmt.Sprintf("(/ %s.0 %s.0)", ns, den.ExactString())
	if neg {
		s = "(- " + s + ")"
	}
	return Term{s, SReal}
}

func (x *Exec) eval(st *State, v ssa.Value) Val {
	switch c := v.(type) {
	case *ssa.Const:
		return x.constVal(c)
	case *ssa.Function:
		return Val{Typ: c.Type(), C: []Term{x.funcRef(c)}, Fn: &Closure{Fn: c}}
	case *ssa.Global:
		// address of a package-level variable
		elem := ptrElem(c.Type())
		name := "global:" + funcKeyGlobal(c)
		ref := x.decls.Const("gaddr!"+sanitize(name), SInt)
		if _, seen := x.tags["$gaddr:"+name]; !seen {
			x.tags["$gaddr:"+name] = 1
			x.decls.Axiom(Gt(ref, TZero))
		}
		st.nonnil[ref.S] = true
		return Val{Typ: c.Type(), C: []Term{ref}, Prefix: name + ":" + typeName(elem)}
	case *ssa.Builtin:
		return Val{Typ: c.Type()}
	}
	for i := len(st.frames) - 1; i >= 0; i-- {
		if val, ok := st.frames[i].locals[v]; ok {
			return val
		}
		// only the top frame and, for free variables, its closure bindings
		break
	}
	if fv, ok := v.(*ssa.FreeVar); ok {
		fr := st.top()
		if fr.closure != nil {
			for i, f := range fr.fn.FreeVars {
				if f == fv {
					return fr.closure.Bindings[i]
				}
			}
		}
	}
	panic(fmt.Sprintf("eval: no value for %s (%T) in %s", v.Name(), v, st.top().fn))
}

func funcKeyGlobal(g *ssa.Global) string {
	s := g.String()
	s = strings.ReplaceAll(s, "github.com/aukilabs/hagall/", "")
	s = strings.ReplaceAll(s, "github.com/aukilabs/hagall-common/", "common/")
	return s
}

func (x *Exec) funcRef(fn *ssa.Function) Term {
	t := x.decls.Const("fn!"+sanitize(funcKey(fn)), SInt)
	return t
}

func (st *State) set(v ssa.Value, val Val) {
	st.top().locals[v] = val
}

// ---------- main loop ----------

func (x *Exec) pushWork(st *State) {
	x.work = append(x.work, st)
}

func (x *Exec) finish(st *State, end string) {
	st.dead = true
	if st.dryWrites != nil {
		return
	}
	x.results = append(x.results, &PathResult{PC: st.pc, Obls: st.obls, End: end, Notes: st.notes, Trace: strings.Join(st.trace, " ")})
	if os.Getenv("HVC_PATHS") != "" {
		var evs []string
		for _, e := range st.events {
			evs = append(evs, e.Kind)
		}
		fmt.Fprintf(os.Stderr, "path end=%s trace=%s events=%v\n", end, strings.Join(st.trace, " "), evs)
	}
}

func (x *Exec) runAll() {
	for len(x.work) > 0 {
		st := x.work[len(x.work)-1]
		x.work = x.work[:len(x.work)-1]
		x.npaths++
		if x.npaths > x.maxPaths {
			unsupp("path cap %d exceeded", x.maxPaths)
		}
		x.runPath(st)
	}
}

func (x *Exec) runPath(st *State) {
	for !st.dead {
		fr := st.top()
		if fr.pc >= len(fr.block.Instrs) {
			panic("fell off block")
		}
		instr := fr.block.Instrs[fr.pc]
		fr.pc++
		x.step(st, instr)
	}
}

func (x *Exec) jump(st *State, to *ssa.BasicBlock) {
	fr := st.top()
	from := fr.block
	if st.stopAt != nil && len(st.frames) == 1 && st.stopAt[to] {
		x.finish(st, "stop")
		return
	}
	if len(st.frames) == 1 && st.curLoop != 0 {
		for _, li := range x.loops {
			if li.ord == st.curLoop && !li.blocks[to] {
				st.curLoop = x.enclosingLoop(to)
			}
		}
	}
	if li, ok := x.loops[to]; ok && fr.fn == x.fn && len(st.frames) == 1 {
		if li.blocks[from] {
			// back edge
			x.loopBackEdge(st, li, from)
			return
		}
		x.loopEnter(st, li, from)
		return
	}
	if fr.fn != x.fn || len(st.frames) > 1 {
		// loops in inlined code are not supported: detect back edge by dominance
		if to.Dominates(from) {
			unsupp("loop in inlined function %s (needs its own contract)", funcKey(fr.fn))
		}
	}
	fr.prev = from
	fr.block = to
	fr.pc = 0
	if len(st.frames) == 1 {
		st.trace = append(st.trace, fmt.Sprintf("%d", to.Index))
	} else if len(st.frames) == 2 {
		st.trace = append(st.trace, fmt.Sprintf("%s:%d", shortFuncName(funcKey(fr.fn)), to.Index))
	}
}

func (x *Exec) step(st *State, instr ssa.Instruction) {
	x.curInstr = instr
	switch in := instr.(type) {
	case *ssa.DebugRef:
		if len(st.frames) == 1 {
			if id, ok := in.Expr.(*ast.Ident); ok {
				fr := st.top()
				if fr.names == nil {
					fr.names = map[string]namedRef{}
				}
				if v, have := fr.locals[in.X]; have {
					fr.names[id.Name] = namedRef{v, in.IsAddr}
				} else if _, isConst := in.X.(*ssa.Const); isConst {
					fr.names[id.Name] = namedRef{x.eval(st, in.X), false}
				}
				if nr, ok := fr.names[id.Name]; ok {
					for _, a := range x.aliasesOf(id.Name) {
						fr.names[a] = nr
					}
				}
			}
		}
	case *ssa.Alloc:
		elem := ptrElem(in.Type())
		p := st.allocObj(elem, sanitize(in.Comment))
		p.Typ = in.Type()
		if !in.Heap {
			st.localRefs = append(st.localRefs, localRef{p.prefix(), p.T()})
		}
		st.set(in, p)
	case *ssa.FieldAddr:
		p := x.eval(st, in.X)
		st.requireNonNil(p.T(), x.fieldSite(in.X, in.Field))
		stt := ptrElem(p.Typ).Underlying().(*types.Struct)
		f := stt.Field(in.Field)
		st.set(in, Val{Typ: in.Type(), C: []Term{p.T()}, Prefix: p.prefix() + "." + f.Name(), Idx: p.Idx})
	case *ssa.Field:
		s := x.eval(st, in.X)
		stt := types.Unalias(s.Typ).Underlying().(*types.Struct)
		lo, hi := fieldRange(stt, in.Field)
		st.set(in, s.slice(lo, hi, in.Type()))
	case *ssa.IndexAddr:
		xv := x.eval(st, in.X)
		idx := x.eval(st, in.Index).T()
		switch u := types.Unalias(xv.Typ).Underlying().(type) {
		case *types.Slice:
			st.oblige("safe:index:"+x.site("IndexAddr"), []string{"C08"}, And(Ge(idx, TZero), Lt(idx, xv.C[1])), "slice index in range")
			st.assume(And(Ge(idx, TZero), Lt(idx, xv.C[1])))
			st.set(in, st.sliceElemPtr(xv, idx))
		case *types.Pointer:
			at, ok := u.Elem().Underlying().(*types.Array)
			if !ok {
				unsupp("IndexAddr on %s", typeName(xv.Typ))
			}
			st.requireNonNil(xv.T(), "IndexAddr")
			ci, isConst := in.Index.(*ssa.Const)
			if !isConst {
				unsupp("non-constant array index")
			}
			n, _ := constant.Int64Val(ci.Value)
			if n < 0 || n >= at.Len() {
				st.obligeStaticFail("safe:index:"+x.site("IndexAddr"), []string{"C08"}, "constant array index out of range")
			}
			st.set(in, Val{Typ: in.Type(), C: []Term{xv.T()}, Prefix: fmt.Sprintf("%s[%d]", xv.prefix(), n), Idx: xv.Idx})
		default:
			unsupp("IndexAddr on %s", typeName(xv.Typ))
		}
	case *ssa.Index:
		xv := x.eval(st, in.X)
		switch u := types.Unalias(xv.Typ).Underlying().(type) {
		case *types.Array:
			ci, isConst := in.Index.(*ssa.Const)
			if !isConst {
				unsupp("non-constant array index")
			}
			n, _ := constant.Int64Val(ci.Value)
			lo, hi := elemRange(u, int(n))
			st.set(in, xv.slice(lo, hi, in.Type()))
		default:
			unsupp("Index on %s", typeName(xv.Typ))
		}
	case *ssa.Lookup:
		xv := x.eval(st, in.X)
		k := x.eval(st, in.Index)
		if _, ok := types.Unalias(xv.Typ).Underlying().(*types.Map); !ok {
			unsupp("Lookup on %s", typeName(xv.Typ))
		}
		v, has := st.mapGet(xv, k.T())
		if in.CommaOk {
			st.set(in, Val{Typ: in.Type(), Sub: []Val{v, boolVal(has)}})
		} else {
			st.set(in, v)
		}
	case *ssa.MapUpdate:
		m := x.eval(st, in.Map)
		k := x.eval(st, in.Key)
		v := x.eval(st, in.Value)
		x.checkStorable(v)
		st.oblige("safe:nilmap:"+x.site("MapUpdate"), []string{"C08"}, Neq(m.T(), TZero), "assignment to entry in nil map")
		st.assume(Neq(m.T(), TZero))
		x.guardCheckMap(st, in.Map, true)
		st.mapUpdate(m, k.T(), v)
	case *ssa.UnOp:
		x.unop(st, in)
	case *ssa.BinOp:
		a := x.eval(st, in.X)
		b := x.eval(st, in.Y)
		st.set(in, x.binop(st, in.Op, a, b, in.Type(), in))
	case *ssa.Store:
		p := x.eval(st, in.Addr)
		v := x.eval(st, in.Val)
		if p.Idx == nil {
			st.requireNonNil(p.T(), "Store")
		}
		x.guardCheck(st, p, true)
		if v.Fn != nil || v.Dyn != nil || v.Iter != nil {
			// keep static knowledge for address-taken locals: remember by location key
			x.rememberStatic(st, p, v)
		} else {
			x.forgetStatic(st, p)
		}
		x.checkStorable(v)
		st.store(p, v)
	case *ssa.Call:
		x.doCall(st, in, in)
	case *ssa.MakeInterface:
		v := x.eval(st, in.X)
		st.set(in, x.makeInterface(st, v, in.Type()))
	case *ssa.ChangeInterface:
		v := x.eval(st, in.X)
		v.Typ = in.Type()
		st.set(in, v)
	case *ssa.ChangeType:
		v := x.eval(st, in.X)
		v.Typ = in.Type()
		st.set(in, v)
	case *ssa.Convert:
		st.set(in, x.convert(st, x.eval(st, in.X), in.Type()))
	case *ssa.TypeAssert:
		x.typeAssert(st, in)
	case *ssa.Extract:
		t := x.eval(st, in.Tuple)
		if t.Sub == nil {
			panic("Extract from non-tuple")
		}
		st.set(in, t.Sub[in.Index])
	case *ssa.Phi:
		fr := st.top()
		// all phis of a block read their operands simultaneously
		var vals []Val
		var phis []*ssa.Phi
		i := fr.pc - 1
		for ; i < len(fr.block.Instrs); i++ {
			ph, ok := fr.block.Instrs[i].(*ssa.Phi)
			if !ok {
				break
			}
			idx := -1
			for j, p := range fr.block.Preds {
				if p == fr.prev {
					idx = j
				}
			}
			if idx < 0 {
				panic("phi: predecessor not found")
			}
			vals = append(vals, x.eval(st, ph.Edges[idx]))
			phis = append(phis, ph)
		}
		for j, ph := range phis {
			v := vals[j]
			v.Typ = ph.Type()
			st.set(ph, v)
		}
		fr.pc = i
	case *ssa.If:
		c := x.eval(st, in.Cond).Bool()
		fr := st.top()
		tb, fb := fr.block.Succs[0], fr.block.Succs[1]
		if c.S == "true" {
			x.jump(st, tb)
			return
		}
		if c.S == "false" {
			x.jump(st, fb)
			return
		}
		other := st.clone()
		other.assume(Not(c))
		x.noteBranchFacts(other, in.Cond, false)
		x.jump(other, fb)
		if !other.dead {
			x.pushWork(other)
		}
		st.assume(c)
		x.noteBranchFacts(st, in.Cond, true)
		x.jump(st, tb)
	case *ssa.Jump:
		x.jump(st, st.top().block.Succs[0])
	case *ssa.Return:
		var res []Val
		for _, r := range in.Results {
			res = append(res, x.eval(st, r))
		}
		x.doReturn(st, res)
	case *ssa.Defer:
		fr := st.top()
		d := deferred{call: in.Common(), instr: in}
		for _, a := range in.Common().Args {
			d.args = append(d.args, x.eval(st, a))
		}
		if in.Common().IsInvoke() || in.Common().StaticCallee() == nil {
			d.fnval = x.eval(st, in.Common().Value)
		}
		fr.defers = append(fr.defers, d)
	case *ssa.RunDefers:
		x.runDefers(st)
	case *ssa.MakeClosure:
		fn := in.Fn.(*ssa.Function)
		cl := &Closure{Fn: fn}
		for _, b := range in.Bindings {
			cl.Bindings = append(cl.Bindings, x.eval(st, b))
		}
		r := st.freshRef("closure")
		st.set(in, Val{Typ: in.Type(), C: []Term{r}, Fn: cl})
	case *ssa.MakeMap:
		st.set(in, st.makeMap(in.Type()))
	case *ssa.MakeSlice:
		l := x.eval(st, in.Len).T()
		c := x.eval(st, in.Cap).T()
		st.oblige("safe:makeslice:"+x.site("MakeSlice"), []string{"C08"}, And(Ge(l, TZero), Le(l, c), Le(c, Term{"1099511627776", SInt})), "makeslice: len/cap in range")
		st.assume(And(Ge(l, TZero), Le(l, c)))
		st.set(in, st.makeSlice(in.Type(), l))
	case *ssa.MakeChan:
		r := st.freshRef("chan")
		sz := x.eval(st, in.Size).T()
		capA := st.heapGet("chan.cap", ArrSort(SInt))
		st.heapSet("chan.cap", Store(capA, r, sz))
		lenA := st.heapGet("chan.len", ArrSort(SInt))
		st.heapSet("chan.len", Store(lenA, r, TZero))
		st.set(in, Val{Typ: in.Type(), C: []Term{r}})
	case *ssa.Slice:
		x.sliceOp(st, in)
	case *ssa.Range:
		m := x.eval(st, in.X)
		if _, ok := types.Unalias(m.Typ).Underlying().(*types.Map); !ok {
			unsupp("range over %s", typeName(m.Typ))
		}
		x.guardCheckMap(st, in.X, false)
		x.nfresh++
		it := &Iter{Map: m, Visited: Term{"((as const (Array Int Bool)) false)", ArrSort(SBool)}, ID: x.nfresh, Count: TZero}
		st.iters[it.ID] = it
		st.set(in, Val{Typ: in.Type(), Iter: it})
	case *ssa.Next:
		x.next(st, in)
	case *ssa.Send:
		ch := x.eval(st, in.Chan)
		v := x.eval(st, in.X)
		x.chanSend(st, ch, v, true)
	case *ssa.Select:
		x.selectOp(st, in)
	case *ssa.Go:
		var args []Val
		for _, a := range in.Common().Args {
			args = append(args, x.eval(st, a))
		}
		name := "?"
		if c := in.Common().StaticCallee(); c != nil {
			name = funcKey(c)
		} else if !in.Common().IsInvoke() {
			fv := x.eval(st, in.Common().Value)
			if fv.Fn != nil {
				name = funcKey(fv.Fn.Fn)
			}
		}
		st.addEvent(Event{Kind: "go", Args: args, Desc: name})
	case *ssa.Panic:
		st.oblige("safe:panic:"+x.site("panic"), []string{"C08"}, TFalse, "explicit panic reachable")
		x.finish(st, "panic")
	default:
		unsupp("instruction %T: %s", instr, instr)
	}
}

func (st *State) addEvent(e Event) {
	if st.dryWrites != nil {
		st.dryWrites["$events"] = true
		_ = 0
	}
	h := make(map[string]Term, len(st.heap))
	for k, v := range st.heap {
		h[k] = v
	}
	e.Heap = h
	e.Loop = st.curLoop
	e.Held = append([]HeldLock(nil), st.held...)
	st.x.flagObligation(st, e)
	st.events = append(st.events, e)
	st.x.countEvent(st, e)
}

func (x *Exec) fieldSite(base ssa.Value, field int) string {
	stt := ptrElem(base.Type()).Underlying().(*types.Struct)
	return x.site(typeName(ptrElem(base.Type())) + "." + stt.Field(field).Name())
}

// noteBranchFacts records nil-ness knowledge from `x != nil` conditions.
func (x *Exec) noteBranchFacts(st *State, cond ssa.Value, taken bool) {
	b, ok := cond.(*ssa.BinOp)
	if !ok {
		return
	}
	isNilConst := func(v ssa.Value) bool {
		c, ok := v.(*ssa.Const)
		return ok && c.Value == nil
	}
	var other ssa.Value
	if isNilConst(b.Y) {
		other = b.X
	} else if isNilConst(b.X) {
		other = b.Y
	} else {
		return
	}
	v := x.eval(st, other)
	if len(v.C) != 1 {
		return
	}
	if (b.Op == token.NEQ && taken) || (b.Op == token.EQL && !taken) {
		st.nonnil[v.C[0].S] = true
	}
}

func (x *Exec) checkStorable(v Val) {
	if p, ok := types.Unalias(v.Typ).Underlying().(*types.Pointer); ok && v.Prefix != "" && v.Prefix != defaultPrefix(p.Elem()) {
		unsupp("interior pointer (%s) escapes to the heap", v.Prefix)
	}
	if v.Idx != nil {
		unsupp("pointer to slice element escapes to the heap")
	}
}

// static knowledge about values stored in address-taken locals (closures, dynamic types).
func staticKey(p Val) string {
	k := p.prefix() + "@" + p.T().S
	if p.Idx != nil {
		k += "[" + p.Idx.S + "]"
	}
	return k
}

func (x *Exec) rememberStatic(st *State, p Val, v Val) {
	if st.statics == nil {
		st.statics = map[string]Val{}
	}
	st.statics[staticKey(p)] = v
}

func (x *Exec) forgetStatic(st *State, p Val) {
	if st.statics != nil {
		delete(st.statics, staticKey(p))
	}
}

func (x *Exec) unop(st *State, in *ssa.UnOp) {
	v := x.eval(st, in.X)
	switch in.Op {
	case token.MUL:
		if v.Idx == nil {
			st.requireNonNil(v.T(), "Load")
		}
		x.guardCheck(st, v, false)
		out := st.load(v)
		out.Typ = in.Type()
		if sv, ok := st.statics[staticKey(v)]; ok {
			out.Fn, out.Dyn, out.Inner, out.Iter = sv.Fn, sv.Dyn, sv.Inner, sv.Iter
		}
		st.assume(typeConstraint(out.Typ, out.C))
		st.assumeAllocated(out)
		if g, ok := in.X.(*ssa.Global); ok {
			x.globalFacts(st, g, out)
		}
		st.set(in, out)
	case token.NOT:
		st.set(in, Val{Typ: in.Type(), C: []Term{Not(v.Bool())}})
	case token.SUB:
		t := v.T()
		st.set(in, Val{Typ: in.Type(), C: []Term{x.wrap(app(t.Sort, "-", t), in.Type())}})
	case token.ARROW:
		x.chanRecv(st, in, v)
	default:
		unsupp("unary op %s", in.Op)
	}
}

// wrap applies machine-integer wrap-around for sized integer types.
func (x *Exec) wrap(t Term, typ types.Type) Term {
	if t.Sort != SInt {
		return t
	}
	mod, signed, ok := intModulus(typ)
	if !ok {
		return t
	}
	b := types.Unalias(typ).Underlying().(*types.Basic)
	if b.Kind() == types.Int || b.Kind() == types.Int64 || b.Kind() == types.Uint64 || b.Kind() == types.Uint || b.Kind() == types.Uintptr {
		if signed {
			x.assumeNote("A-int64: arithmetic on int/int64 treated as mathematical (no wrap-around modelled)")
			return t
		}
	}
	m := Term{mod, SInt}
	if !signed {
		return app(SInt, "mod", t, m)
	}
	// signed: ((t + half) mod m) - half
	half := Term{fmt.Sprintf("(div %s 2)", mod), SInt}
	return Sub(app(SInt, "mod", Add(t, half), m), half)
}

func (x *Exec) binop(st *State, op token.Token, a, b Val, rt types.Type, in *ssa.BinOp) Val {
	res := func(t Term) Val { return Val{Typ: rt, C: []Term{t}} }
	switch op {
	case token.EQL, token.NEQ:
		if len(a.C) != len(b.C) {
			panic("binop ==: component mismatch")
		}
		var eqs []Term
		for i := range a.C {
			eqs = append(eqs, Eq(a.C[i], b.C[i]))
		}
		// comparing slices/maps/funcs only with nil: fine, compares refs (+len for slices)
		if _, isSlice := types.Unalias(a.Typ).Underlying().(*types.Slice); isSlice {
			eqs = eqs[:1]
		}
		e := And(eqs...)
		if op == token.NEQ {
			e = Not(e)
		}
		return res(e)
	}
	at, bt := a.T(), b.T()
	if at.Sort == SBool {
		switch op {
		case token.AND, token.LAND:
			return res(And(at, bt))
		case token.OR, token.LOR:
			return res(Or(at, bt))
		}
		unsupp("bool binop %s", op)
	}
	isFloat := at.Sort == SReal
	if isFloat {
		x.assumeNote("A-real: floating-point arithmetic/comparison modelled over the reals (no rounding, NaN, Inf)")
	}
	switch op {
	case token.LSS:
		return res(Lt(at, bt))
	case token.LEQ:
		return res(Le(at, bt))
	case token.GTR:
		return res(Gt(at, bt))
	case token.GEQ:
		return res(Ge(at, bt))
	case token.ADD:
		if b, ok := types.Unalias(a.Typ).Underlying().(*types.Basic); ok && b.Info()&types.IsString != 0 {
			f := x.decls.Fun("strcat", []Sort{SInt, SInt}, SInt)
			r := app(SInt, f, at, bt)
			st.assume(Eq(x.strlen(r), Add(x.strlen(at), x.strlen(bt))))
			return res(r)
		}
		return res(x.wrap(Add(at, bt), rt))
	case token.SUB:
		return res(x.wrap(Sub(at, bt), rt))
	case token.MUL:
		return res(x.wrap(app(at.Sort, "*", at, bt), rt))
	case token.QUO:
		if isFloat {
			return res(app(SReal, "/", at, bt))
		}
		st.oblige("safe:div:"+x.site("div"), []string{"C08"}, Neq(bt, TZero), "integer division by zero")
		st.assume(Neq(bt, TZero))
		// Go truncates toward zero
		q := x.truncDiv(at, bt)
		return res(x.wrap(q, rt))
	case token.REM:
		st.oblige("safe:div:"+x.site("rem"), []string{"C08"}, Neq(bt, TZero), "integer remainder by zero")
		st.assume(Neq(bt, TZero))
		q := x.truncDiv(at, bt)
		return res(Sub(at, app(SInt, "*", bt, q)))
	case token.SHL, token.SHR, token.AND, token.OR, token.XOR, token.AND_NOT:
		f := x.decls.Fun("bitop_"+sanitize(op.String()), []Sort{SInt, SInt}, SInt)
		x.assumeNote("A-bitop: bit operations are uninterpreted")
		return res(app(SInt, f, at, bt))
	}
	unsupp("binop %s", op)
	return Val{}
}

func (x *Exec) truncDiv(a, b Term) Term {
	// SMT div is floor for positive divisor / Euclidean; build truncation explicitly
	q := app(SInt, "div", a, b)
	// Euclidean div: a = b*q + r, 0<=r<|b|. Truncated: if a<0 and r!=0 then q + sign(b) adj
	r := app(SInt, "mod", a, b)
	adj := Ite(And(Lt(a, TZero), Neq(r, TZero)), Ite(Gt(b, TZero), IntLit(1), IntLit(-1)), TZero)
	return Add(q, adj)
}

func (x *Exec) makeInterface(st *State, v Val, it types.Type) Val {
	r := st.fresh("iface", SInt)
	tag := x.typeTag(v.Typ)
	st.assume(Neq(r, TZero))
	st.assume(Eq(app(SInt, x.typeofFn(), r), tag))
	if len(v.C) == 1 {
		tn := typeName(v.Typ)
		box := x.decls.Fun("box:"+tn, []Sort{v.C[0].Sort}, SInt)
		unbox := x.decls.Fun("unbox:"+tn, []Sort{SInt}, v.C[0].Sort)
		st.assume(Eq(r, app(SInt, box, v.C[0])))
		st.assume(Eq(app(v.C[0].Sort, unbox, r), v.C[0]))
	}
	if isProtoEnum(v.Typ) && len(v.C) == 1 {
		// protoreflect.Enum.Number() of a boxed enum value is the value itself
		st.assume(Eq(x.uf("enumnum", []Sort{SInt}, SInt, r), v.C[0]))
	}
	inner := v
	return Val{Typ: it, C: []Term{r}, Dyn: v.Typ, Inner: &inner}
}

func (x *Exec) typeAssert(st *State, in *ssa.TypeAssert) {
	v := x.eval(st, in.X)
	var ok Term
	var out Val
	_, toIface := types.Unalias(in.AssertedType).Underlying().(*types.Interface)
	switch {
	case v.Dyn != nil && !toIface:
		if types.Identical(v.Dyn, in.AssertedType) {
			ok = TTrue
			out = *v.Inner
			out.Typ = in.AssertedType
		} else {
			ok = TFalse
			out = zeroVal(in.AssertedType)
		}
	case v.Dyn != nil && toIface:
		if types.Implements(v.Dyn, in.AssertedType.Underlying().(*types.Interface)) {
			ok = TTrue
		} else {
			ok = TFalse
		}
		out = v
		out.Typ = in.AssertedType
	case toIface && types.Implements(v.Typ, in.AssertedType.Underlying().(*types.Interface)):
		// static type already implements the asserted interface: only nil fails
		ok = Neq(v.T(), TZero)
		out = v
		out.Typ = in.AssertedType
	case toIface:
		b := st.fresh("implements", SBool)
		ok = And(Neq(v.T(), TZero), b)
		out = v
		out.Typ = in.AssertedType
	default:
		ok = And(Neq(v.T(), TZero), Eq(app(SInt, x.typeofFn(), v.T()), x.typeTag(in.AssertedType)))
		cs := comps(in.AssertedType)
		if len(cs) == 1 {
			unbox := x.decls.Fun("unbox:"+typeName(in.AssertedType), []Sort{SInt}, cs[0].Sort)
			out = Val{Typ: in.AssertedType, C: []Term{app(cs[0].Sort, unbox, v.T())}}
			st.assume(typeConstraint(out.Typ, out.C))
			st.assumeAllocated(out)
		} else {
			out = st.symbolic(in.AssertedType, "unboxed")
		}
	}
	if in.CommaOk {
		z := zeroVal(in.AssertedType)
		res := Val{Typ: in.AssertedType}
		for i := range out.C {
			res.C = append(res.C, Ite(ok, out.C[i], z.C[i]))
		}
		res.Fn, res.Dyn, res.Inner = out.Fn, out.Dyn, out.Inner
		st.set(in, Val{Typ: in.Type(), Sub: []Val{res, boolVal(ok)}})
		return
	}
	st.oblige("safe:typeassert:"+x.site("TypeAssert("+typeName(in.AssertedType)+")"), []string{"C08"}, ok, "type assertion cannot fail")
	st.assume(ok)
	st.set(in, out)
}

func (x *Exec) convert(st *State, v Val, to types.Type) Val {
	from := v.Typ
	fb, fok := types.Unalias(from).Underlying().(*types.Basic)
	tb, tok := types.Unalias(to).Underlying().(*types.Basic)
	if fok && tok {
		switch {
		case fb.Info()&types.IsInteger != 0 && tb.Info()&types.IsInteger != 0:
			return Val{Typ: to, C: []Term{x.wrapAlways(v.T(), to)}}
		case fb.Info()&types.IsInteger != 0 && tb.Info()&types.IsFloat != 0:
			x.assumeNote("A-real: int-to-float conversion is exact")
			return Val{Typ: to, C: []Term{app(SReal, "to_real", v.T())}}
		case fb.Info()&types.IsFloat != 0 && tb.Info()&types.IsFloat != 0:
			x.assumeNote("A-real: float32/float64 conversion is exact")
			return Val{Typ: to, C: v.C}
		case fb.Info()&types.IsFloat != 0 && tb.Info()&types.IsInteger != 0:
			x.assumeNote("A-real: float-to-int conversion truncates a finite real; NaN/Inf/out-of-range results are implementation-defined in Go and modelled as wrap")
			t := v.T()
			tr := Ite(Ge(t, RealLit("0.0")), app(SInt, "to_int", t), app(SInt, "-", app(SInt, "to_int", app(SReal, "-", t))))
			return Val{Typ: to, C: []Term{x.wrapAlways(tr, to)}}
		case fb.Info()&types.IsString != 0 && tb.Info()&types.IsString != 0:
			return Val{Typ: to, C: v.C}
		}
	}
	// string <-> []byte
	if fok && fb.Info()&types.IsString != 0 {
		if _, isSlice := types.Unalias(to).Underlying().(*types.Slice); isSlice {
			f := x.decls.Fun("bytesof", []Sort{SInt}, SInt)
			return Val{Typ: to, C: []Term{app(SInt, f, v.T()), x.strlen(v.T())}}
		}
	}
	if tok && tb.Info()&types.IsString != 0 {
		if _, isSlice := types.Unalias(from).Underlying().(*types.Slice); isSlice {
			f := x.decls.Fun("stringof", []Sort{SInt, SInt}, SInt)
			r := app(SInt, f, v.C[0], v.C[1])
			st.assume(Eq(x.strlen(r), v.C[1]))
			return Val{Typ: to, C: []Term{r}}
		}
	}
	if types.Identical(types.Unalias(from).Underlying(), types.Unalias(to).Underlying()) {
		v.Typ = to
		return v
	}
	unsupp("convert %s -> %s", typeName(from), typeName(to))
	return Val{}
}

func (x *Exec) wrapAlways(t Term, typ types.Type) Term {
	mod, signed, ok := intModulus(typ)
	if !ok {
		return t
	}
	m := Term{mod, SInt}
	if !signed {
		return app(SInt, "mod", t, m)
	}
	half := Term{fmt.Sprintf("(div %s 2)", mod), SInt}
	return Sub(app(SInt, "mod", Add(t, half), m), half)
}

func (x *Exec) sliceOp(st *State, in *ssa.Slice) {
	v := x.eval(st, in.X)
	if b, ok := types.Unalias(v.Typ).Underlying().(*types.Basic); ok && b.Info()&types.IsString != 0 {
		unsupp("string slicing")
	}
	if pt, ok := types.Unalias(v.Typ).Underlying().(*types.Pointer); ok {
		at, isArr := pt.Elem().Underlying().(*types.Array)
		if !isArr || in.Low != nil || in.High != nil || in.Max != nil {
			unsupp("slice of %s", typeName(v.Typ))
		}
		// compiler-built array (variadic arguments / composite literal): copy into a fresh slice
		n := int(at.Len())
		out := st.makeSlice(in.Type(), IntLit(int64(n)))
		for i := 0; i < n; i++ {
			p := Val{Typ: types.NewPointer(at.Elem()), C: []Term{v.T()}, Prefix: fmt.Sprintf("%s[%d]", v.prefix(), i)}
			st.store(st.sliceElemPtr(out, IntLit(int64(i))), st.load(p))
		}
		out.arrayLit = &arrayLit{ref: v.T(), prefix: v.prefix(), n: n, elem: at.Elem()}
		st.set(in, out)
		return
	}
	if _, ok := types.Unalias(v.Typ).Underlying().(*types.Slice); !ok {
		unsupp("slice of %s", typeName(v.Typ))
	}
	if in.Low == nil && in.High == nil && in.Max == nil {
		st.set(in, v)
		return
	}
	unsupp("slice expression with bounds")
}

func (x *Exec) next(st *State, in *ssa.Next) {
	itv := x.eval(st, in.Iter)
	if itv.Iter == nil {
		unsupp("next on non-map iterator")
	}
	it := st.iters[itv.Iter.ID]
	m := it.Map
	mt := mapType(m.Typ)
	k := st.fresh("key", SInt)
	has := st.mapHas(m, k)
	cond := And(has, Not(Select(it.Visited, k)))
	// no-more branch
	done := st.clone()
	kk := Term{"k!n", SInt}
	done.assume(Forall([]Term{kk}, Implies(done.mapHas(m, kk), Select(it.Visited, kk))))
	if !it.MapWritten {
		// the map was not modified while iterating: every entry was yielded exactly once
		done.assume(Eq(it.Count, done.mapLen(m)))
	}
	zk, zv := zeroVal(mt.Key()), zeroVal(mt.Elem())
	done.set(in, Val{Typ: in.Type(), Sub: []Val{boolVal(TFalse), zk, zv}})
	x.pushWork(done)
	// next-element branch
	st.assume(cond)
	st.assume(typeConstraint(mt.Key(), []Term{k}))
	v := st.mapGetRaw(m, k)
	st.assume(typeConstraint(v.Typ, v.C))
	st.assumeAllocated(v)
	nit := *it
	nit.Visited = Store(it.Visited, k, TTrue)
	nit.Count = Add(it.Count, IntLit(1))
	st.iters[it.ID] = &nit
	st.set(in, Val{Typ: in.Type(), Sub: []Val{boolVal(TTrue), {Typ: mt.Key(), C: []Term{k}}, v}})
}

// ---------- returns and defers ----------

func (x *Exec) runDefers(st *State) {
	fr := st.top()
	if len(fr.defers) == 0 {
		return
	}
	d := fr.defers[len(fr.defers)-1]
	fr.defers = fr.defers[:len(fr.defers)-1]
	// re-execute RunDefers after the deferred call returns
	fr.pc--
	x.invoke(st, d.call, d.args, d.fnval, nil, d.instr)
}

func (x *Exec) doReturn(st *State, res []Val) {
	fr := st.top()
	if len(st.frames) == 1 {
		x.atReturn(st, res)
		return
	}
	st.frames = st.frames[:len(st.frames)-1]
	caller := st.top()
	if fr.cont != nil {
		fr.cont(st, res)
		return
	}
	if fr.retInstr != nil {
		var rv Val
		sig := fr.fn.Signature
		switch sig.Results().Len() {
		case 0:
			rv = Val{Typ: sig.Results()}
		case 1:
			rv = res[0]
		default:
			rv = Val{Typ: sig.Results(), Sub: res}
		}
		caller.locals[fr.retInstr] = rv
	}
}

// ---------- loops ----------

func (x *Exec) computeLoops() {
	x.loops = map[*ssa.BasicBlock]*loopInfo{}
	fn := x.fn
	for _, b := range fn.Blocks {
		for _, s := range b.Succs {
			if s.Dominates(b) {
				li := x.loops[s]
				if li == nil {
					li = &loopInfo{header: s, blocks: map[*ssa.BasicBlock]bool{s: true}}
					x.loops[s] = li
				}
				// natural loop of back edge b->s
				stack := []*ssa.BasicBlock{b}
				for len(stack) > 0 {
					n := stack[len(stack)-1]
					stack = stack[:len(stack)-1]
					if li.blocks[n] {
						continue
					}
					li.blocks[n] = true
					stack = append(stack, n.Preds...)
				}
			}
		}
	}
	var hs []*ssa.BasicBlock
	for h := range x.loops {
		hs = append(hs, h)
	}
	sort.Slice(hs, func(i, j int) bool { return hs[i].Index < hs[j].Index })
	for i, h := range hs {
		x.loops[h].ord = i + 1
	}
}

// enclosingLoop returns the ordinal of the innermost loop containing block b (0 if none).
func (x *Exec) enclosingLoop(b *ssa.BasicBlock) int {
	best, size := 0, 1<<30
	for _, li := range x.loops {
		if li.blocks[b] && len(li.blocks) < size {
			best, size = li.ord, len(li.blocks)
		}
	}
	return best
}

// countEvent bumps content-keyed ghost counters for abstract call events carrying a message:
// ghost.ev:<kind>:<MsgType>:<Field>[value] for every uint32 field of the message.
func (x *Exec) countEvent(st *State, e Event) {
	if !x.eng.eventKinds[e.Kind] {
		return
	}
	{
		name := "ghost.evn:" + e.Kind
		arr := st.heapGet(name, ArrSort(SInt))
		st.heapSetAt(name, Store(arr, TZero, Add(Select(arr, TZero), IntLit(1))), nil)
	}
	for _, a := range e.Args {
		if a.Dyn == nil || a.Inner == nil {
			continue
		}
		pt, ok := types.Unalias(a.Dyn).Underlying().(*types.Pointer)
		if !ok {
			continue
		}
		stt, ok := pt.Elem().Underlying().(*types.Struct)
		if !ok {
			continue
		}
		for i := 0; i < stt.NumFields(); i++ {
			f := stt.Field(i)
			b, isB := types.Unalias(f.Type()).Underlying().(*types.Basic)
			if !isB || b.Kind() != types.Uint32 {
				continue
			}
			fp := Val{Typ: types.NewPointer(f.Type()), C: a.Inner.C, Prefix: a.Inner.prefix() + "." + f.Name()}
			v := st.load(fp).T()
			name := "ghost.ev:" + e.Kind + ":" + typeName(pt.Elem()) + ":" + f.Name()
			arr := st.heapGet(name, ArrSort(SInt))
			st.heapSetAt(name, Store(arr, v, Add(Select(arr, v), IntLit(1))), nil)
		}
	}
}

func isProtoEnum(t types.Type) bool {
	n, ok := types.Unalias(t).(*types.Named)
	if !ok {
		return false
	}
	b, ok := n.Underlying().(*types.Basic)
	if !ok || b.Kind() != types.Int32 {
		return false
	}
	for i := 0; i < n.NumMethods(); i++ {
		if n.Method(i).Name() == "Number" {
			return true
		}
	}
	return false
}

// globalFacts: assumed values of well-known package-level variables of dependencies.
func (x *Exec) globalFacts(st *State, g *ssa.Global, v Val) {
	switch funcKeyGlobal(g) {
	case "common/websocket.ErrModuleMsgSkip":
		x.assumeNote("A-global: hwebsocket.ErrModuleMsgSkip is the constant error of type \"module_msg_skip\"")
		st.assume(Neq(v.T(), TZero))
		st.assume(Eq(x.errType(v.T()), x.strLit("module_msg_skip")))
	}
}

// flagClass: the DISABLE_* flag that names each relayed message class (from the statement of C17).
var flagClass = map[string]string{
	"common/messages/hagallpb.SessionState":                   "DISABLE_SESSION_STATE",
	"common/messages/hagallpb.ParticipantJoinBroadcast":       "DISABLE_PARTICIPANT_JOIN_BROADCAST",
	"common/messages/hagallpb.ParticipantLeaveBroadcast":      "DISABLE_PARTICIPANT_LEAVE_BROADCAST",
	"common/messages/hagallpb.EntityAddBroadcast":             "DISABLE_ENTITY_ADD_BROADCAST",
	"common/messages/hagallpb.EntityDeleteBroadcast":          "DISABLE_ENTITY_DELETE_BROADCAST",
	"common/messages/hagallpb.EntityUpdatePoseBroadcast":      "DISABLE_ENTITY_UPDATE_POSE_BROADCAST",
	"common/messages/hagallpb.CustomMessageBroadcast":         "DISABLE_CUSTOM_MESSAGE_BROADCAST",
	"common/messages/hagallpb.EntityComponentAddBroadcast":    "DISABLE_ENTITY_COMPONENT_ADD_BROADCAST",
	"common/messages/hagallpb.EntityComponentUpdateBroadcast": "DISABLE_ENTITY_COMPONENT_UPDATE_BROADCAST",
	"common/messages/hagallpb.EntityComponentDeleteBroadcast": "DISABLE_ENTITY_COMPONENT_DELETE_BROADCAST",
}

// flagObligation (C17): a message is emitted under the guard of exactly the flag that names its class.
func (x *Exec) flagObligation(st *State, e Event) {
	if st.dryWrites != nil || !(e.Kind == "send" || x.eng.eventKinds[e.Kind]) {
		return
	}
	guard := st.currentFlagGuard()
	for _, a := range e.Args {
		if a.Dyn == nil {
			continue
		}
		pt, ok := types.Unalias(a.Dyn).Underlying().(*types.Pointer)
		if !ok {
			continue
		}
		cls := typeName(pt.Elem())
		if !strings.HasPrefix(cls, "common/messages/") {
			continue
		}
		want := flagClass[cls]
		short := cls[strings.LastIndex(cls, ".")+1:]
		name := "flag:" + short
		if want == guard {
			st.obls = append(st.obls, Obl{Name: name, Tags: []string{"C17"}, Goal: TTrue, PCLen: len(st.pc), Static: "ok", Desc: short + " is emitted under exactly its own flag (" + want + ")"})
		} else {
			st.obligeStaticFail(name, []string{"C17"}, fmt.Sprintf("%s is emitted under flag guard %q but its class is named by %q", short, guard, want))
		}
	}
}

package main

import (
	"flag"
	"fmt"
	"os"
	"sort"
	"strings"
	"time"
)

func main() {
	if len(os.Args) < 2 {
		fmt.Fprintln(os.Stderr, "usage: hvc <verify|check|list|selftest|replay> ...")
		os.Exit(2)
	}
	switch os.Args[1] {
	case "verify":
		cmdVerify(os.Args[2:])
	case "list":
		cmdList(os.Args[2:])
	case "check":
		os.Exit(cmdCheck(os.Args[2:]))
	case "replay":
		os.Exit(cmdReplay(os.Args[2:]))
	default:
		fmt.Fprintln(os.Stderr, "unknown command", os.Args[1])
		os.Exit(2)
	}
}

func cmdList(args []string) {
	fs := flag.NewFlagSet("list", flag.ExitOnError)
	repo := fs.String("repo", "/repo", "repository root")
	impl := fs.Bool("implements", false, "list the (interface method contract, implementation) pairs and how each is checked")
	fs.Parse(args)
	e, err := loadEngine(*repo)
	if err != nil {
		fmt.Fprintln(os.Stderr, err)
		os.Exit(2)
	}
	if *impl {
		for _, p := range e.implPairs {
			fmt.Printf("%s <- %s  frame-refinement=%v body=%q unchecked=%q\n", p.Iface, p.Impl, p.FrameRefinement, p.BodyKey, p.Unchecked)
		}
		return
	}
	keys := sortedKeys(e.funcs)
	for _, k := range keys {
		mark := " "
		if _, ok := e.funcSpecs[k]; ok {
			mark = "*"
		}
		fmt.Println(mark, k)
	}
}

// cmdVerify: development command — verify the named functions and print every obligation.
func cmdVerify(args []string) {
	fs := flag.NewFlagSet("verify", flag.ExitOnError)
	repo := fs.String("repo", "/repo", "repository root")
	timeout := fs.Int("timeout", 10000, "per-query timeout (ms)")
	keep := fs.Bool("keep", false, "keep SMT files")
	tags := fs.String("tags", "", "comma-separated property tags (default all)")
	verbose := fs.Bool("v", false, "print discharged obligations too")
	work := fs.String("work", "", "work dir")
	fs.Parse(args)
	t0 := time.Now()
	e, err := loadEngine(*repo)
	if err != nil {
		fmt.Fprintln(os.Stderr, err)
		os.Exit(2)
	}
	fmt.Printf("loaded in %.1fs (contracts from %s)\n", time.Since(t0).Seconds(), e.contractSource)
	e.loadNameAliases("/verif")
	dir := *work
	if dir == "" {
		dir, _ = os.MkdirTemp("", "hvc")
		if !*keep {
			defer os.RemoveAll(dir)
		}
	}
	opts := SolveOpts{TimeoutMS: *timeout, WorkDir: dir, Workers: 16, KeepFiles: *keep}
	if *tags != "" {
		opts.Tags = map[string]bool{}
		for _, t := range strings.Split(*tags, ",") {
			opts.Tags[t] = true
		}
	}
	keys := fs.Args()
	if len(keys) == 1 && keys[0] == "all" {
		keys = nil
		for _, k := range sortedKeys(e.funcSpecs) {
			if sp := e.funcSpecs[k]; sp.IsFunctional() && !sp.Trusted && e.funcs[k] != nil {
				keys = append(keys, k)
			}
		}
	}
	if len(keys) == 1 && keys[0] == "implements" {
		keys = nil
		for _, p := range e.implPairs {
			if p.BodyKey != "" {
				keys = append(keys, p.BodyKey)
			}
		}
	}
	bad := 0
	for _, k := range keys {
		if _, ok := e.funcs[k]; !ok {
			// allow suffix match
			var cands []string
			for fk := range e.funcs {
				if strings.HasSuffix(fk, k) {
					cands = append(cands, fk)
				}
			}
			sort.Strings(cands)
			if len(cands) == 0 {
				fmt.Println("no function", k)
				continue
			}
			k = cands[0]
		}
		t1 := time.Now()
		fr := e.verifyFunc(k)
		texec := time.Since(t1)
		rs := solveFunc(fr, opts)
		cov := solveCovers(fr, opts)
		nd, nf := 0, 0
		for _, r := range rs {
			if r.Status == "discharged" {
				nd++
			} else {
				nf++
			}
		}
		fmt.Printf("== %s: %d paths, %d obligations, %d discharged, %d not; exec %.1fs total %.1fs\n", k, fr.NPaths, len(rs), nd, nf, texec.Seconds(), time.Since(t1).Seconds())
		if fr.Err != "" {
			fmt.Println("   ERROR:", fr.Err)
			bad++
		}
		for _, r := range rs {
			if r.Status != "discharged" || *verbose {
				fmt.Printf("   [%s] %s %v x%d (%s, %dms) %s\n", r.Status, r.Name, r.Tags, r.Instances, r.Solver, r.TimeMS, r.Desc)
				if r.Status != "discharged" {
					bad++
					if r.Detail != "" {
						fmt.Println("        ", trunc(r.Detail, 300))
					}
					if r.Query != "" {
						fmt.Println("         query:", r.Query)
					}
				}
			}
		}
		for _, n := range sortedKeys(cov) {
			if cov[n] != "reachable" || *verbose {
				fmt.Printf("   cover %s: %s\n", n, cov[n])
			}
		}
		if *verbose {
			for _, a := range fr.Assumptions {
				fmt.Println("   assume:", a)
			}
			fmt.Println("   inlined:", strings.Join(fr.Inlined, ", "))
			fmt.Println("   used:", strings.Join(fr.UsedSpecs, ", "))
		}
	}
	if bad > 0 {
		if !*keep && *work == "" {
			os.RemoveAll(dir)
		}
		os.Exit(1)
	}
}


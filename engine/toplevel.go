package main

import (
	"go/token"
	"fmt"
	"os"
	"go/types"
	"strings"

	"golang.org/x/tools/go/ssa"
)

// FuncResult is the outcome of symbolically executing one function under contract.
type FuncResult struct {
	Key         string
	Paths       []*PathResult
	Decls       *Decls
	Err         string // outside-subset / spec error
	Assumptions []string
	UsedSpecs   []string
	Inlined     []string
	NPaths      int
	Covers      map[string][]coverInst
	DeclsQF     string
	Canaries    [][]Term
}

type coverInst struct {
	PC   []Term
	Cond Term
}

func (e *Engine) verifyFunc(key string) (res *FuncResult) {
	fn := e.funcs[key]
	spec := e.funcSpecs[key]
	res = &FuncResult{Key: key}
	if fn == nil {
		res.Err = "no such function"
		return
	}
	if spec == nil {
		spec = &FuncSpec{Key: key, File: e.fileOf(fn), Loops: map[int]*LoopSpec{}}
	}
	x := &Exec{
		eng: e, fn: fn, spec: spec, decls: NewDecls(), baseArrays: map[string]Sort{}, wildDeclared: map[string]bool{},
		siteCount: map[string]int{}, maxPaths: 6000, assumptions: map[string]bool{},
		strlits: map[string]Term{}, tags: map[string]int{}, inlined: map[string]bool{}, usedSpecs: map[string]bool{}, leaf: map[string]Comp{}, ordTab: map[*ssa.Function]map[ssa.Instruction]int{},
	}
	res.Decls = x.decls
	defer func() {
		if r := recover(); r != nil {
			switch er := r.(type) {
			case unsupported:
				res.Err = er.Error()
			case specErr:
				res.Err = er.Error()
			default:
				panic(r)
			}
		}
		res.Paths = x.results
		res.NPaths = x.npaths
		res.Assumptions = sortedKeys(x.assumptions)
		res.UsedSpecs = sortedKeys(x.usedSpecs)
		res.Inlined = sortedKeys(x.inlined)
		res.Covers = x.covers
		res.Canaries = x.canaries
	}()
	x.computeLoops()
	st := &State{x: x, heap: map[string]Term{}, nonnil: map[string]bool{}, iters: map[int]*Iter{}, inLoop: map[int]bool{}, onceDone: map[string]Term{}, statics: map[string]Val{}}
	st.alloc = x.decls.Const("alloc0", SInt)
	st.assume(Ge(st.alloc, TZero))
	fr := &Frame{fn: fn, locals: map[ssa.Value]Val{}, block: fn.Blocks[0]}
	st.frames = []*Frame{fr}
	st.depth = 1
	x.params = map[string]Val{}
	for _, p := range fn.Params {
		v := st.symbolic(p.Type(), "p_"+p.Name())
		fr.locals[p] = v
		x.params[p.Name()] = v
		for _, a := range x.aliasesOf(p.Name()) {
			x.params[a] = v
		}
	}
	for _, fv := range fn.FreeVars {
		v := st.symbolic(fv.Type(), "fv_"+fv.Name())
		fr.locals[fv] = v
		x.params[fv.Name()] = v
		if capturedByRef(fn, fv) {
			// the closure captured the variable itself: in contracts its name denotes the variable's value at entry
			st.assume(Neq(v.T(), TZero))
			st.nonnil[v.T().S] = true
			val := st.load(v)
			st.assume(typeConstraint(val.Typ, val.C))
			st.assumeAllocated(val)
			x.params[fv.Name()] = val
		}
		for _, a := range x.aliasesOf(fv.Name()) {
			x.params[a] = x.params[fv.Name()]
		}
	}
	if fn.Signature.Recv() != nil && len(fn.Params) > 0 {
		if _, isPtr := types.Unalias(fn.Params[0].Type()).Underlying().(*types.Pointer); isPtr {
			r := fr.locals[fn.Params[0]].T()
			st.assume(Neq(r, TZero))
			st.nonnil[r.S] = true
		}
	}
	if spec.IfaceParams {
		// the clauses of an interface-method contract name the parameters recv, a0, a1, ...
		for i, p := range fn.Params {
			if i == 0 {
				x.params["recv"] = fr.locals[p]
			} else {
				x.params[fmt.Sprintf("a%d", i-1)] = fr.locals[p]
			}
		}
	}
	x.entry = st.clone()
	env := x.newEnv(st, spec, x.params)
	for _, r := range spec.Requires {
		st.assume(env.evalBool(r.X))
	}
	if len(spec.ImplRequires) > 0 {
		ienv := x.newEnv(st, &FuncSpec{File: spec.ImplFile, Lets: spec.ImplLets}, x.params)
		for _, r := range spec.ImplRequires {
			st.assume(ienv.evalBool(r.X))
			x.assumeNote("A-impl-requires: the implementation's own precondition `" + r.Text + "` is assumed when it is reached through the interface (" + spec.Key + ")")
		}
	}
	x.entry = st.clone()
	// vacuity: the precondition must be satisfiable
	x.addCover("vacuity", st.pc, TTrue)
	x.pushWork(st)
	x.runAll()
	return
}

func (e *Engine) fileOf(fn *ssa.Function) string {
	pos := e.prog.Fset.Position(fn.Pos())
	return pos.Filename
}

func (x *Exec) addCanary(pc []Term) {
	if len(x.canaries) < 400 {
		x.canaries = append(x.canaries, append([]Term(nil), pc...))
	}
}

func (x *Exec) addCover(name string, pc []Term, cond Term) {
	if x.covers == nil {
		x.covers = map[string][]coverInst{}
	}
	if len(x.covers[name]) >= 2000 {
		return
	}
	x.covers[name] = append(x.covers[name], coverInst{PC: append([]Term(nil), pc...), Cond: cond})
}

// postEnv builds the environment for postconditions at a return point.
func (x *Exec) postEnv(st *State, res []Val) *Env {
	env := x.newEnv(st, x.spec, x.params)
	vars := map[string]Val{}
	for k, v := range x.params {
		vars[k] = v
	}
	env.vars = vars
	env.oldHeap = x.entry.heap
	oa := x.entry.alloc
	env.oldAlloc = &oa
	bindResults(env, res)
	return env
}

func (x *Exec) atReturn(st *State, res []Val) {
	if st.dryWrites != nil {
		x.finish(st, "dry")
		return
	}
	spec := x.spec
	// lock balance
	if len(st.held) != 0 {
		var hs []string
		for _, h := range st.held {
			hs = append(hs, h.Field+"("+h.Mode+")")
		}
		st.obligeStaticFail("lock:balance", []string{"C09"}, "returns while holding "+strings.Join(hs, ", "))
	} else {
		st.obls = append(st.obls, Obl{Name: "lock:balance", Tags: []string{"C09"}, Goal: TTrue, PCLen: len(st.pc), Static: "ok", Desc: "every lock acquired on the path has been released at return"})
	}
	env := x.postEnv(st, res)
	// emits first: bind(...) patterns introduce names the ensures clauses may use
	if spec.HasEmits {
		x.bindEmitNames(st, env, spec.Emits)
		g, why := x.matchEmits(st, env, spec.Emits)
		x.obligeEmits(st, "emits", x.tagsFor(spec.EmitTags, spec.Tags), TTrue, g, why)
	}
	for _, e := range spec.Ensures {
		st.oblige(fmt.Sprintf("post:%d", e.N), x.tagsFor(e.Tags, spec.Tags), env.evalBool(e.X), "ensures "+e.Text)
	}
	oenv := env.inOld()
	var allAssumes []Term
	for _, b := range spec.Behaviours {
		var as []Term
		for _, a := range b.Assumes {
			as = append(as, oenv.evalBool(a.X))
		}
		A := And(as...)
		allAssumes = append(allAssumes, A)
		x.addCover("cover:"+b.Name, st.pc, A)
		// each conditional relay of the behaviour must be reachable both ways (emitted / suppressed):
		// otherwise the obligations about it were discharged on no path at all
		for k, p := range b.Emits {
			if p.Cond == nil || p.Maybe {
				continue
			}
			c := oenv.evalBool(p.Cond)
			x.addCover(fmt.Sprintf("cover:%s:when%d", b.Name, k+1), st.pc, And(A, c))
			x.addCover(fmt.Sprintf("cover:%s:unless%d", b.Name, k+1), st.pc, And(A, Not(c)))
		}
		// emits first: bind(...) patterns introduce names the ensures clauses may use
		benv := env.child()
		x.bindEmitNames(st, benv, b.Emits)
		if b.HasEmits {
			g, why := x.matchEmits(st, benv, b.Emits)
			x.obligeEmits(st, "emits:"+b.Name, x.tagsFor(b.EmitTags, spec.Tags), A, g, why)
		}
		for _, e := range b.Ensures {
			g := benv.evalBool(e.X)
			if os.Getenv("HVC_SPLIT") != "" {
				for k, c := range flattenConj(g) {
					st.oblige(fmt.Sprintf("post:%s/%d.%d", b.Name, e.N, k+1), x.tagsFor(e.Tags, spec.Tags), Implies(A, c), "behaviour "+b.Name+": conjunct "+trunc(c.S, 160))
				}
				continue
			}
			st.oblige(fmt.Sprintf("post:%s/%d", b.Name, e.N), x.tagsFor(e.Tags, spec.Tags), Implies(A, g), "behaviour "+b.Name+": ensures "+e.Text)
		}
	}
	if spec.Complete && len(spec.Behaviours) > 0 {
		st.oblige("complete", spec.Tags, Or(allAssumes...), "behaviours are complete")
	}
	if spec.Disjoint {
		var ds []Term
		for i := range allAssumes {
			for j := i + 1; j < len(allAssumes); j++ {
				ds = append(ds, Not(And(allAssumes[i], allAssumes[j])))
			}
		}
		st.oblige("disjoint", spec.Tags, And(ds...), "behaviours are disjoint")
	}
	if spec.HasMod {
		x.frameObligations(st, env)
	}
	for _, cs := range spec.Calls {
		x.checkCallsSpec(st, env, cs)
	}
	// canary: the accumulated hypotheses at a return point must not be contradictory
	x.addCanary(st.pc)
	x.finish(st, "return")
}

func (x *Exec) obligeEmits(st *State, name string, tags []string, A Term, g Term, why string) {
	desc := "event trace matches the declared list"
	if why != "" {
		desc += " (" + why + ")"
	}
	st.oblige(name, tags, Implies(A, g), desc)
}

// frameObligations: nothing outside `modifies` changed on pre-existing objects.
func (x *Exec) frameObligations(st *State, env *Env) {
	if x.spec.SkipFrame {
		return
	}
	ml := x.resolveModifies(st, x.spec, env.inOld())
	x.implementsFrame(st, ml)
	i := Term{"i!fr", SInt}
	for _, w := range wildRecs(st.heap) {
		if _, atEntry := x.entry.heap[wildKeyPrefix+w.seq]; atEntry {
			continue
		}
		for _, pat := range w.pats {
			covered := strings.HasPrefix(pat, "ghost.") && !x.spec.StrictGhost || strings.HasPrefix(pat, "cell:")
			for _, own := range ml.wild {
				if strings.Contains(pat, own) {
					covered = true
				}
			}
			if ml.coarse[pat] {
				covered = true
			}
			ftags := append(append([]string(nil), x.spec.Tags...), x.spec.ModTags...)
			if covered {
				st.obls = append(st.obls, Obl{Name: "frame:wild:" + pat, Tags: ftags, Goal: TTrue, PCLen: len(st.pc), Static: "ok", Desc: "a callee's wildcard frame " + pat + "* lies within this function's own frame"})
			} else {
				st.obligeStaticFail("frame:wild:"+pat, ftags, "a callee may modify every array matching "+pat+"*, which this function's modifies clause does not allow")
			}
		}
	}
	for _, name := range sortedKeys(st.heap) {
		if strings.HasPrefix(name, wildKeyPrefix) {
			continue
		}
		if strings.HasPrefix(name, "cell:") || ml.isCoarse(name) || strings.Contains(name, ":fresh:") {
			continue
		}
		if strings.HasPrefix(name, "ghost.") && !x.spec.StrictGhost {
			// ghost counters are constrained through ensures/emits
			if _, listed := ml.precise[name]; !listed {
				continue
			}
		}
		cur := st.heap[name]
		base := x.decls.Const(name+"@0", cur.Sort)
		if cur.S == base.S {
			continue
		}
		var excl []Term
		for _, idx := range ml.precise[name] {
			excl = append(excl, Neq(i, idx))
		}
		if x.spec.IfaceParams && len(x.fn.Params) > 0 && len(ml.wild) > 0 && len(ml.keep) > 0 {
			// implements check against a wildcard frame with preserved patterns: a method may write the fields of its
			// own receiver object; the preserved patterns are stated for every other object (callers never read the private fields of the object they
			// call through the interface: DESIGN §6.6)
			if pt, ok := types.Unalias(x.fn.Params[0].Type()).Underlying().(*types.Pointer); ok && strings.HasPrefix(name, typeName(pt.Elem())+".") {
				excl = append(excl, Neq(i, x.params[x.fn.Params[0].Name()].T()))
			}
		}
		// reference 0 is nil: no object, holds nothing (ghost arrays are keyed by ids, where 0 is a key like any other)
		lo := Gt(i, TZero)
		if strings.HasPrefix(name, "ghost.") {
			lo = Ge(i, TZero)
		}
		goal := Forall([]Term{i}, Implies(And(append([]Term{lo, Le(i, x.entry.alloc)}, excl...)...), Eq(Select(cur, i), Select(base, i))))
		ftags := append(append([]string(nil), x.spec.Tags...), x.spec.ModTags...)
		st.oblige("frame:"+name, ftags, goal, "only the declared frame is modified ("+name+")")
	}
}

// ---------- events ----------

var observable = map[string]bool{"send": true, "sendmsg": true, "callfn": true, "chansend": true, "close": true, "WriteHeader": true, "ServeHTTP": true, "PostReceipt": true, "timer_reset": true, "GaugeInc": true, "GaugeDec": true, "wg_wait": true, "scheduler_close": true}

func (x *Exec) isObservable(e Event) bool {
	if observable[e.Kind] {
		return true
	}
	// abstract call events of contracted functions
	return x.eng.eventKinds[e.Kind]
}

func (x *Exec) matchEmits(st *State, env *Env, pats []EventPat) (Term, string) {
	return x.matchEmitsLoop(st, env, pats, 0, 0)
}

// matchEmitsLoop matches the observable events emitted in loop `ord` (0 = outside loops) from index `from` on.
func (x *Exec) matchEmitsLoop(st *State, env *Env, pats []EventPat, ord int, from int) (Term, string) {
	var evs []Event
	for i, e := range st.events {
		if i < from || e.Loop != ord {
			continue
		}
		if x.isObservable(e) {
			evs = append(evs, e)
		}
	}
	if ord == 0 {
		for _, e := range st.events {
			if e.Loop != 0 && x.isObservable(e) {
				if ls := x.spec.Loops[e.Loop]; ls == nil || !ls.HasEmits {
					return TFalse, fmt.Sprintf("events are emitted inside loop %d which declares no per-iteration emits", e.Loop)
				}
			}
		}
	}
	// enumerate inclusion choices for conditional patterns
	var conds []Term
	for _, p := range pats {
		if p.Cond != nil {
			if ord != 0 {
				// per-iteration conditions are evaluated in the state at the start of the iteration
				cenv := *env
				snap := *env.st
				snap.assumeTo = env.st
				if env.st.assumeTo != nil {
					snap.assumeTo = env.st.assumeTo
				}
				if h, ok := st.loopHeap[ord]; ok {
					snap.heap = h
				}
				cenv.st = &snap
				conds = append(conds, cenv.evalBool(p.Cond))
			} else {
				conds = append(conds, env.inOld().evalBool(p.Cond))
			}
		} else {
			conds = append(conds, TTrue)
		}
	}
	var alts []Term
	var why []string
	var rec func(pi int, chosen []int, cs []Term)
	rec = func(pi int, chosen []int, cs []Term) {
		if len(chosen) > len(evs) {
			return
		}
		if pi == len(pats) {
			if len(chosen) != len(evs) {
				return
			}
			ms := append([]Term(nil), cs...)
			for k, idx := range chosen {
				m, w := x.matchEvent(env, pats[idx], evs[k])
				if w != "" {
					why = append(why, w)
				}
				ms = append(ms, m)
			}
			alts = append(alts, And(ms...))
			return
		}
		if pats[pi].Cond == nil {
			rec(pi+1, append(append([]int(nil), chosen...), pi), cs)
			return
		}
		if pats[pi].Maybe {
			rec(pi+1, append(append([]int(nil), chosen...), pi), cs)
			rec(pi+1, chosen, cs)
			return
		}
		if pats[pi].AtLeast {
			// emitted whenever the condition holds, and possibly otherwise
			rec(pi+1, append(append([]int(nil), chosen...), pi), cs)
		} else {
			rec(pi+1, append(append([]int(nil), chosen...), pi), append(append([]Term(nil), cs...), conds[pi]))
		}
		rec(pi+1, chosen, append(append([]Term(nil), cs...), Not(conds[pi])))
	}
	rec(0, nil, nil)
	if len(alts) == 0 {
		var ks []string
		for _, e := range evs {
			ks = append(ks, e.Kind)
		}
		return TFalse, fmt.Sprintf("path emits %d events %v, declared list has %d patterns", len(evs), ks, len(pats))
	}
	return Or(alts...), strings.Join(why, "; ")
}

func (x *Exec) matchEvent(env *Env, p EventPat, e Event) (Term, string) {
	if p.Kind != e.Kind {
		return TFalse, fmt.Sprintf("event kind %s where %s was declared", e.Kind, p.Kind)
	}
	if len(p.Args) != len(e.Args) {
		return TFalse, fmt.Sprintf("%s: %d arguments declared, event has %d", p.Kind, len(p.Args), len(e.Args))
	}
	var out []Term
	for i, pa := range p.Args {
		if id, ok := pa.(*EIdent); ok && id.Name == "_" {
			continue
		}
		t, w := x.matchArg(env, pa, e.Args[i], e.Heap)
		if w != "" {
			return TFalse, w
		}
		out = append(out, t)
	}
	return And(out...), ""
}

func (x *Exec) matchArg(env *Env, pa Expr, actual Val, heap map[string]Term) (Term, string) {
	if mp, ok := pa.(*EMsg); ok {
		t := env.pkg.resolveType(mp.Type)
		var ptr Val
		switch {
		case actual.Dyn != nil:
			pt, isPtr := types.Unalias(actual.Dyn).Underlying().(*types.Pointer)
			if !isPtr || !types.Identical(pt.Elem(), t) {
				return TFalse, fmt.Sprintf("message of type %s where %s was declared", typeName(actual.Dyn), mp.Type)
			}
			ptr = *actual.Inner
		case types.Identical(actual.Typ, t):
			// struct value: compare fields by components
			stt, ok := t.Underlying().(*types.Struct)
			if !ok {
				return TFalse, "pattern on non-struct value"
			}
			var out []Term
			for _, fi := range mp.Fields {
				found := false
				for i := 0; i < stt.NumFields(); i++ {
					if stt.Field(i).Name() == fi.Name {
						found = true
						lo, hi := fieldRange(stt, i)
						want := env.eval(fi.X)
						if len(want.C) != hi-lo {
							return TFalse, "field " + fi.Name + ": component mismatch"
						}
						for k := range want.C {
							out = append(out, Eq(actual.C[lo+k], want.C[k]))
						}
					}
				}
				if !found {
					return TFalse, "no field " + fi.Name
				}
			}
			return And(out...), ""
		default:
			pt, isPtr := types.Unalias(actual.Typ).Underlying().(*types.Pointer)
			if !isPtr || !types.Identical(pt.Elem(), t) {
				return TFalse, fmt.Sprintf("argument of type %s where message %s was declared", typeName(actual.Typ), mp.Type)
			}
			ptr = actual
		}
		// evaluate fields in the heap snapshot taken at emission time
		snap := *env.st
		snap.assumeTo = env.st
		if env.st.assumeTo != nil {
			snap.assumeTo = env.st.assumeTo
		}
		snap.heap = heap
		senv := *env
		senv.st = &snap
		out := []Term{Neq(ptr.T(), TZero)}
		for _, fi := range mp.Fields {
			fv := senv.fieldOf(ptr, fi.Name)
			if bc, ok := fi.X.(*ECall); ok && bc.Fn == "bind" && len(bc.Args) == 1 {
				// bind(name): give the actual field value a name for the rest of the pattern / later clauses
				env.vars[bc.Args[0].(*EIdent).Name] = fv
				continue
			}
			if sub, ok := fi.X.(*EMsg); ok {
				tm, w := x.matchArg(env, sub, fv, heap)
				if w != "" {
					return TFalse, w
				}
				out = append(out, tm)
				continue
			}
			want := env.eval(fi.X)
			if len(want.C) != len(fv.C) {
				if want.Typ == untypedNil {
					out = append(out, Eq(fv.C[0], TZero))
					continue
				}
				return TFalse, fmt.Sprintf("field %s: component mismatch", fi.Name)
			}
			for k := range want.C {
				out = append(out, Eq(fv.C[k], want.C[k]))
			}
		}
		return And(out...), ""
	}
	want := env.eval(pa)
	if len(want.C) != len(actual.C) {
		// a receiver that changed between value and pointer: compare the values
		if pt, ok := types.Unalias(actual.Typ).Underlying().(*types.Pointer); ok && types.Identical(pt.Elem(), want.Typ) && len(actual.C) == 1 {
			actual = env.st.load(actual)
		} else if pt, ok := types.Unalias(want.Typ).Underlying().(*types.Pointer); ok && actual.Typ != nil && types.Identical(pt.Elem(), actual.Typ) && len(want.C) == 1 {
			want = env.st.load(want)
		}
	}
	if len(want.C) != len(actual.C) {
		return TFalse, "argument component mismatch"
	}
	var out []Term
	for k := range want.C {
		out = append(out, Eq(actual.C[k], want.C[k]))
	}
	return And(out...), ""
}

// ---------- loops ----------

func (x *Exec) loopEnv(st *State, li *loopInfo, phiVals map[string]Val) *Env {
	env := x.newEnv(st, x.spec, x.params)
	vars := map[string]Val{}
	for k, v := range x.params {
		vars[k] = v
	}
	if fr := st.top(); fr != nil && len(st.frames) == 1 {
		for name, nr := range fr.names {
			if nr.isAddr {
				vars["$"+name] = st.load(nr.val)
			} else {
				vars["$"+name] = nr.val
			}
		}
	}
	for k, v := range phiVals {
		vars[k] = v
	}
	for g, t := range st.ghosts {
		vars[g] = Val{Typ: ghostArrType, C: []Term{t}}
	}
	// the iterator of this loop, if any
	for b := range li.blocks {
		for _, in := range b.Instrs {
			if nx, ok := in.(*ssa.Next); ok {
				if fr := st.top(); fr != nil {
					if iv, ok := fr.locals[nx.Iter]; ok && iv.Iter != nil {
						if it, ok := st.iters[iv.Iter.ID]; ok && x.nextInLoopHeader(li, nx) {
							vars["V"] = Val{Typ: setType, C: []Term{it.Visited}}
							vars["N"] = intVal(it.Count)
						}
					}
				}
			}
		}
	}
	// iterators of all loops by ordinal (V1, N1, V2, ...)
	if fr := st.top(); fr != nil {
		for _, l2 := range x.loops {
			for _, in := range l2.header.Instrs {
				if nx, ok := in.(*ssa.Next); ok {
					if iv, ok := fr.locals[nx.Iter]; ok && iv.Iter != nil {
						if it, ok := st.iters[iv.Iter.ID]; ok {
							vars[fmt.Sprintf("V%d", l2.ord)] = Val{Typ: setType, C: []Term{it.Visited}}
							vars[fmt.Sprintf("N%d", l2.ord)] = intVal(it.Count)
						}
					}
				}
			}
		}
	}
	env.vars = vars
	env.oldHeap = x.entry.heap
	oa := x.entry.alloc
	env.oldAlloc = &oa
	return env
}

func (x *Exec) nextInLoopHeader(li *loopInfo, nx *ssa.Next) bool {
	return nx.Block() == li.header
}

func (x *Exec) loopIters(st *State, li *loopInfo) []int {
	var ids []int
	fr := st.top()
	for b := range li.blocks {
		for _, in := range b.Instrs {
			if nx, ok := in.(*ssa.Next); ok {
				if iv, ok := fr.locals[nx.Iter]; ok && iv.Iter != nil {
					ids = append(ids, iv.Iter.ID)
				}
			}
		}
	}
	return ids
}

func (x *Exec) headerPhis(li *loopInfo) []*ssa.Phi {
	var out []*ssa.Phi
	for _, in := range li.header.Instrs {
		ph, ok := in.(*ssa.Phi)
		if !ok {
			break
		}
		out = append(out, ph)
	}
	return out
}

// indexLoopAlias: contracts of loops over slices written for `for _, x := range s` name the index of the last
// processed element $rangeindex (go/ssa's name for it; -1 before the first iteration). When the loop has
// been rewritten as the canonical index loop `for i := 0; ...; i++`, that value is i - 1 at every point the
// contract is evaluated (loop entry, loop head, back edge), so $rangeindex is accepted as an alias of it.
func (x *Exec) indexLoopAlias(li *loopInfo, phiVals map[string]Val) {
	if _, have := phiVals["$rangeindex"]; have {
		return
	}
	var cand *ssa.Phi
	for _, ph := range x.headerPhis(li) {
		if ph.Comment == "" || len(ph.Edges) != 2 {
			continue
		}
		b, ok := ph.Type().Underlying().(*types.Basic)
		if !ok || b.Info()&types.IsInteger == 0 {
			continue
		}
		zero, step := false, false
		for _, e := range ph.Edges {
			if c, ok := e.(*ssa.Const); ok && c.Value != nil && c.Value.ExactString() == "0" {
				zero = true
			}
			if bo, ok := e.(*ssa.BinOp); ok && bo.Op == token.ADD && bo.X == ssa.Value(ph) {
				if c, ok := bo.Y.(*ssa.Const); ok && c.Value != nil && c.Value.ExactString() == "1" {
					step = true
				}
			}
		}
		if zero && step {
			if cand != nil {
				return // ambiguous
			}
			cand = ph
		}
	}
	if cand == nil {
		return
	}
	if v, ok := phiVals["$"+cand.Comment]; ok && len(v.C) == 1 {
		phiVals["$rangeindex"] = Val{Typ: types.Typ[types.Int], C: []Term{Sub(v.C[0], IntLit(1))}}
		x.assumeNote("contract name $rangeindex resolved to $" + cand.Comment + " - 1 (range loop rewritten as an index loop) in " + funcKey(x.fn))
	}
}

func (x *Exec) loopEnter(st *State, li *loopInfo, from *ssa.BasicBlock) {
	fr := st.top()
	if st.dryWrites != nil {
		// dry run: walk the body once with the current state
		if st.inLoop[li.ord] {
			x.finish(st, "dry")
			return
		}
		st.inLoop[li.ord] = true
		st.curLoop = li.ord
		fr.prev, fr.block, fr.pc = from, li.header, 0
		return
	}
	ls := x.spec.Loops[li.ord]
	if ls == nil && x.eng.sweepLoops {
		ls = &LoopSpec{N: li.ord}
		x.spec.Loops[li.ord] = ls
		x.assumeNote("sweep: loops without a declared invariant are cut with the trivial invariant (only lock-discipline obligations are claimed for them)")
	}
	if ls == nil {
		unsupp("loop %d of %s has no invariant", li.ord, x.spec.Key)
	}
	if st.ghosts == nil {
		st.ghosts = map[string]Term{}
	}
	for _, g := range ls.Ghosts {
		st.ghosts[g] = st.fresh("ghost_"+g, ArrSort(SInt))
	}
	// values the phis take on entry
	phiVals := map[string]Val{}
	idx := predIndex(li.header, from)
	for _, ph := range x.headerPhis(li) {
		if ph.Comment != "" {
			phiVals["$"+ph.Comment] = x.eval(st, ph.Edges[idx])
			for _, a := range x.aliasesOf(ph.Comment) {
				phiVals["$"+a] = phiVals["$"+ph.Comment]
			}
		}
	}
	x.indexLoopAlias(li, phiVals)
	env := x.loopEnv(st, li, phiVals)
	for _, inv := range ls.Invariants {
		st.oblige(fmt.Sprintf("inv-init:loop%d/%d", li.ord, inv.N), x.tagsFor(inv.Tags, x.spec.Tags), env.evalBool(inv.X), "loop invariant holds on entry: "+inv.Text)
	}
	// dry run to discover the arrays the body writes
	dry := st.clone()
	dry.dryWrites = map[string]bool{}
	dry.dryFreshFrom = x.nfresh
	dry.dryKinds = map[string]int{}
	dry.dryWilds = &[][2][]string{}
	dry.inLoop[li.ord] = true
	dry.curLoop = li.ord
	dfr := dry.top()
	dfr.prev, dfr.block, dfr.pc = from, li.header, 0
	dry.stopAt = map[*ssa.BasicBlock]bool{}
	for _, b := range x.fn.Blocks {
		if !li.blocks[b] {
			dry.stopAt[b] = true
		}
	}
	savedWork, savedPaths := x.work, x.npaths
	x.work = []*State{dry}
	x.runAll()
	x.work, x.npaths = savedWork, savedPaths
	writes := dry.dryWrites
	for _, name := range sortedKeys(writes) {
		if name == "$events" {
			st.eventsInLoop = true
			continue
		}
		s, ok := x.arraySort(st, name)
		if !ok {
			s, ok = x.arraySort(dry, name)
			if !ok {
				continue
			}
		}
		before := st.heapGet(name, s)
		after := st.heapHavoc(name, s)
		kinds := dry.dryKinds[name]
		i := Term{"i!lf", SInt}
		switch {
		case kinds&wArbitrary != 0:
			// no implicit frame
		case kinds == wLoopFresh:
			// every write in the body goes to an object allocated in the body
			st.assume(Forall([]Term{i}, Implies(And(Ge(i, TZero), Le(i, st.alloc)), Eq(Select(after, i), Select(before, i)))))
		case kinds&wCallee == 0:
			// every write goes to an object allocated by this function
			st.assume(Forall([]Term{i}, Implies(And(Ge(i, TZero), Le(i, x.entry.alloc)), Eq(Select(after, i), Select(before, i)))))
		case kinds&wFnFresh == 0:
			// only contracted callees rewrite the array: the caller's non-escaping locals are out of their reach
			for _, lr := range st.localRefs {
				if strings.HasPrefix(name, lr.prefix) {
					st.assume(Eq(Select(after, lr.ref), Select(before, lr.ref)))
				}
			}
		}
	}
	na := st.fresh("alloc", SInt)
	st.assume(Ge(na, st.alloc))
	st.alloc = na
	st.flushAxioms()
	// wildcard frames of callees in the body also cover arrays nobody has looked at yet
	for _, pw := range *dry.dryWilds {
		st.recordWild(pw[0], pw[1])
	}
	st.statics = map[string]Val{}
	for _, id := range x.loopIters(st, li) {
		it := *st.iters[id]
		it.Visited = st.fresh("V", ArrSort(SBool))
		it.Count = st.fresh("N", SInt)
		st.assume(Ge(it.Count, TZero))
		mn := st.region(it.Map)
		if writes["mapdom:"+mn] {
			it.MapWritten = true
		}
		st.iters[id] = &it
	}
	for g := range st.ghosts {
		st.ghosts[g] = st.fresh("ghost_"+g, ArrSort(SInt))
	}
	phiVals = map[string]Val{}
	for _, ph := range x.headerPhis(li) {
		v := st.symbolic(ph.Type(), "phi_"+sanitize(ph.Comment))
		fr.locals[ph] = v
		if ph.Comment != "" {
			phiVals["$"+ph.Comment] = v
			for _, a := range x.aliasesOf(ph.Comment) {
				phiVals["$"+a] = v
			}
		}
	}
	x.indexLoopAlias(li, phiVals)
	env = x.loopEnv(st, li, phiVals)
	for _, inv := range ls.Invariants {
		st.assume(env.evalBool(inv.X))
	}
	st.inLoop[li.ord] = true
	st.curLoop = li.ord
	if st.loopHeldBy == nil {
		st.loopHeldBy = map[int][]HeldLock{}
	}
	st.loopHeldBy[li.ord] = append([]HeldLock(nil), st.held...)
	if st.loopEvStart == nil {
		st.loopEvStart = map[int]int{}
	}
	st.loopEvStart[li.ord] = len(st.events)
	if st.loopHeap == nil {
		st.loopHeap = map[int]map[string]Term{}
	}
	st.loopHeap[li.ord] = copyHeap(st.heap)
	st.loopHeld = append([]HeldLock(nil), st.held...)
	fr.prev, fr.block = from, li.header
	fr.pc = len(x.headerPhis(li))
}

func predIndex(b, pred *ssa.BasicBlock) int {
	for i, p := range b.Preds {
		if p == pred {
			return i
		}
	}
	panic("predIndex: not a predecessor")
}

func (x *Exec) loopBackEdge(st *State, li *loopInfo, from *ssa.BasicBlock) {
	if st.dryWrites != nil {
		x.finish(st, "dry")
		return
	}
	ls := x.spec.Loops[li.ord]
	if ls == nil {
		unsupp("loop %d of %s has no invariant", li.ord, x.spec.Key)
	}
	phiVals := map[string]Val{}
	idx := predIndex(li.header, from)
	for _, ph := range x.headerPhis(li) {
		if ph.Comment != "" {
			phiVals["$"+ph.Comment] = x.eval(st, ph.Edges[idx])
			for _, a := range x.aliasesOf(ph.Comment) {
				phiVals["$"+a] = phiVals["$"+ph.Comment]
			}
		}
	}
	x.indexLoopAlias(li, phiVals)
	uenv := x.loopEnv(st, li, phiVals)
	for _, gu := range ls.Updates {
		cur, ok := st.ghosts[gu.Ghost]
		if !ok {
			sfail("update of undeclared ghost %s", gu.Ghost)
		}
		nv := Store(cur, uenv.eval(gu.Key).T(), uenv.eval(gu.Val).T())
		if gu.Cond != nil {
			nv = Ite(uenv.evalBool(gu.Cond), nv, cur)
		}
		st.ghosts[gu.Ghost] = nv
	}
	env := x.loopEnv(st, li, phiVals)
	for _, inv := range ls.Invariants {
		st.oblige(fmt.Sprintf("inv-pres:loop%d/%d", li.ord, inv.N), x.tagsFor(inv.Tags, x.spec.Tags), env.evalBool(inv.X), "loop invariant preserved: "+inv.Text)
	}
	if ls.HasEmits {
		var gs []Term
		var whys []string
		for _, alt := range ls.EmitAlts {
			g, why := x.matchEmitsLoop(st, env, alt, li.ord, st.loopEvStart[li.ord])
			gs = append(gs, g)
			if why != "" {
				whys = append(whys, why)
			}
		}
		x.obligeEmits(st, fmt.Sprintf("emits:loop%d", li.ord), x.tagsFor(ls.EmitTags, x.spec.Tags), TTrue, Or(gs...), strings.Join(whys, " | "))
	} else {
		for i, e := range st.events {
			if i >= st.loopEvStart[li.ord] && e.Loop == li.ord && x.isObservable(e) {
				st.obligeStaticFail(fmt.Sprintf("emits:loop%d", li.ord), x.spec.Tags, "loop emits events but declares no per-iteration emits list")
				break
			}
		}
	}
	if !sameLocks(st.held, st.loopHeldBy[li.ord]) {
		st.obligeStaticFail(fmt.Sprintf("lock:loop%d", li.ord), []string{"C09"}, "lock set differs between loop entry and back edge")
	}
	x.finish(st, "backedge")
}

func sameLocks(a, b []HeldLock) bool {
	if len(a) != len(b) {
		return false
	}
	for i := range a {
		if a[i].Field != b[i].Field || a[i].Mode != b[i].Mode || a[i].Ref.S != b[i].Ref.S {
			return false
		}
	}
	return true
}

// checkCallsSpec: the function calls its higher-order parameter exactly as declared.
func (x *Exec) checkCallsSpec(st *State, env *Env, cs *CallsSpec) {
	fv, ok := x.params[cs.Param]
	if !ok {
		sfail("calls: no parameter %s", cs.Param)
	}
	var hits []Event
	for _, e := range st.events {
		if e.Kind == "callfn" && len(e.Args) > 0 && e.Args[0].T().S == fv.T().S {
			hits = append(hits, e)
		}
	}
	cond := TTrue
	if cs.When != nil {
		cond = env.inOld().evalBool(cs.When)
	}
	name := "ho:" + cs.Param
	tags := x.spec.Tags
	if st.eventsInLoop {
		st.obligeStaticFail(name, tags, "higher-order parameter may be called inside a loop")
		return
	}
	switch len(hits) {
	case 0:
		st.oblige(name, tags, Not(cond), "parameter "+cs.Param+" is not called only when the declared condition is false")
	case 1:
		cenv := env.child()
		for i, an := range cs.Args {
			if i+1 < len(hits[0].Args) {
				cenv.vars[an] = hits[0].Args[i+1]
			}
		}
		// callback arguments are evaluated in the heap at the time of the call
		snap := *env.st
		snap.assumeTo = env.st
		if env.st.assumeTo != nil {
			snap.assumeTo = env.st.assumeTo
		}
		snap.heap = hits[0].Heap
		cenv.st = &snap
		st.oblige(name, tags, cond, "parameter "+cs.Param+" is called only when the declared condition holds")
		for _, hspec := range cs.Holding {
			lname, mode := hspec, "R"
			if k := strings.Index(hspec, ":"); k >= 0 {
				lname, mode = hspec[:k], strings.ToUpper(hspec[k+1:])
			}
			found := false
			for _, hl := range hits[0].Held {
				if strings.HasSuffix(hl.Field, "."+lname) && hl.Mode == mode {
					found = true
				}
			}
			if found {
				st.obls = append(st.obls, Obl{Name: "ho:" + cs.Param + "/holding:" + lname, Tags: []string{"C09"}, Goal: TTrue, PCLen: len(st.pc), Static: "ok", Desc: "callback runs holding " + lname})
			} else {
				st.obligeStaticFail("ho:"+cs.Param+"/holding:"+lname, []string{"C09"}, "callback is not called while holding "+lname+" ("+mode+") as declared")
			}
		}
		for _, w := range cs.With {
			st.oblige(fmt.Sprintf("ho:%s/with%d", cs.Param, w.N), x.tagsFor(w.Tags, tags), cenv.evalBool(w.X), "callback argument: "+w.Text)
		}
	default:
		st.obligeStaticFail(name, tags, fmt.Sprintf("parameter %s is called %d times", cs.Param, len(hits)))
	}
}

// flattenConj splits a conjunction (also under an implication) into its conjuncts (debugging aid).
func flattenConj(t Term) []Term {
	conjMu.Lock()
	cs, ok := conjTable[t.S]
	conjMu.Unlock()
	if ok {
		var out []Term
		for _, c := range cs {
			out = append(out, flattenConj(c)...)
		}
		return out
	}
	if strings.HasPrefix(t.S, "(=> ") {
		implMu.Lock()
		p, ok := implTable[t.S]
		implMu.Unlock()
		if ok {
			var out []Term
			for _, c := range flattenConj(p[1]) {
				out = append(out, Implies(p[0], c))
			}
			return out
		}
	}
	return []Term{t}
}

// capturedByRef: the free variable holds the address of a variable of the enclosing function.
func capturedByRef(fn *ssa.Function, fv *ssa.FreeVar) bool {
	pt, ok := types.Unalias(fv.Type()).Underlying().(*types.Pointer)
	if !ok {
		return false
	}
	for p := fn.Parent(); p != nil; p = p.Parent() {
		for _, prm := range p.Params {
			if prm.Name() == fv.Name() {
				return types.Identical(pt.Elem(), prm.Type())
			}
		}
		for _, b := range p.Blocks {
			for _, in := range b.Instrs {
				if a, ok := in.(*ssa.Alloc); ok && a.Comment == fv.Name() {
					return types.Identical(a.Type(), fv.Type())
				}
			}
		}
	}
	return false
}

package main

import (
	"fmt"
	"go/constant"
	"go/types"
	"strings"
)

// Env is the evaluation environment of specification expressions.
type Env struct {
	x       *Exec
	st      *State
	oldHeap map[string]Term // heap used by old(); nil means "same as current"
	oldAlloc *Term
	vars    map[string]Val
	lets    map[string]Expr
	pkg     *PkgInfo
	qn      *int
	// msgHeap is used while matching event patterns (snapshot heap)
}

type specErr struct{ msg string }

func (e specErr) Error() string { return "spec error: " + e.msg }

func sfail(format string, args ...any) {
	panic(specErr{fmt.Sprintf(format, args...)})
}

func (env *Env) child() *Env {
	n := *env
	n.vars = make(map[string]Val, len(env.vars)+2)
	for k, v := range env.vars {
		n.vars[k] = v
	}
	return &n
}

func (env *Env) inOld() *Env {
	if env.oldHeap == nil {
		return env
	}
	n := *env
	st := *env.st
	st.assumeTo = env.st
	if env.st.assumeTo != nil {
		st.assumeTo = env.st.assumeTo
	}
	st.heap = env.oldHeap
	if env.oldAlloc != nil {
		st.alloc = *env.oldAlloc
	}
	n.st = &st
	n.oldHeap = nil
	return &n
}

var untypedNil = types.Typ[types.UntypedNil]

func (env *Env) evalBool(e Expr) Term {
	v := env.eval(e)
	if len(v.C) != 1 || v.C[0].Sort != SBool {
		sfail("boolean expression expected, got %s", typeName(v.Typ))
	}
	return v.C[0]
}

func (env *Env) eval(e Expr) Val {
	switch n := e.(type) {
	case *ENum:
		if strings.Contains(n.V, ".") {
			return Val{Typ: types.Typ[types.Float64], C: []Term{RealLit(n.V)}}
		}
		return Val{Typ: types.Typ[types.UntypedInt], C: []Term{{n.V, SInt}}}
	case *EStr:
		return Val{Typ: types.Typ[types.String], C: []Term{env.x.strLit(n.V)}}
	case *EIdent:
		return env.ident(n.Name)
	case *EField:
		return env.field(n)
	case *EIndex:
		return env.index(n)
	case *EUn:
		v := env.eval(n.X)
		switch n.Op {
		case "!":
			return boolVal(Not(v.Bool()))
		case "-":
			return Val{Typ: v.Typ, C: []Term{app(v.T().Sort, "-", v.T())}}
		}
	case *EBin:
		return env.bin(n)
	case *EQuant:
		return env.quant(n)
	case *ECall:
		return env.call(n)
	case *EAssert:
		v := env.eval(n.X)
		t := env.pkg.resolveType(n.Type)
		cs := comps(t)
		if len(cs) != 1 {
			sfail("type assertion to multi-component type %s", n.Type)
		}
		unbox := env.x.decls.Fun("unbox:"+typeName(t), []Sort{SInt}, cs[0].Sort)
		return Val{Typ: t, C: []Term{app(cs[0].Sort, unbox, v.T())}}
	case *EMsg:
		sfail("message pattern outside emits")
	}
	sfail("cannot evaluate %T", e)
	return Val{}
}

func (env *Env) ident(name string) Val {
	if v, ok := env.vars[name]; ok {
		return v
	}
	if le, ok := env.lets[name]; ok {
		// lets are evaluated in the pre-state
		return env.inOld().eval(le)
	}
	switch name {
	case "nil":
		return Val{Typ: untypedNil, C: []Term{TZero}}
	case "true":
		return boolVal(TTrue)
	case "false":
		return boolVal(TFalse)
	}
	// package-level constant
	if obj := env.pkg.Types.Scope().Lookup(name); obj != nil {
		if c, ok := obj.(*types.Const); ok {
			return env.constVal(c)
		}
	}
	sfail("unknown identifier %q", name)
	return Val{}
}

func (env *Env) constVal(c *types.Const) Val {
	switch c.Val().Kind() {
	case constant.Int:
		s := c.Val().ExactString()
		if strings.HasPrefix(s, "-") {
			s = "(- " + s[1:] + ")"
		}
		return Val{Typ: c.Type(), C: []Term{{s, SInt}}}
	case constant.String:
		return Val{Typ: c.Type(), C: []Term{env.x.strLit(constant.StringVal(c.Val()))}}
	case constant.Bool:
		if constant.BoolVal(c.Val()) {
			return boolVal(TTrue)
		}
		return boolVal(TFalse)
	case constant.Float:
		return Val{Typ: c.Type(), C: []Term{ratLit(c.Val())}}
	}
	sfail("unsupported constant %s", c.Name())
	return Val{}
}

func (env *Env) field(n *EField) Val {
	// package-qualified constant?
	if id, ok := n.X.(*EIdent); ok {
		if _, isVar := env.vars[id.Name]; !isVar {
			if _, isLet := env.lets[id.Name]; !isLet {
				if p := env.pkg.importByName(id.Name); p != nil {
					obj := p.Scope().Lookup(n.Name)
					if c, ok := obj.(*types.Const); ok {
						return env.constVal(c)
					}
					sfail("%s.%s is not a constant", id.Name, n.Name)
				}
			}
		}
	}
	v := env.eval(n.X)
	return env.fieldOf(v, n.Name)
}

func (env *Env) fieldOf(v Val, name string) Val {
	if v.Dec != nil {
		return env.decodedField(v, name)
	}
	t := types.Unalias(v.Typ)
	if p, ok := t.Underlying().(*types.Pointer); ok {
		stt, ok := p.Elem().Underlying().(*types.Struct)
		if !ok {
			sfail("field %s of pointer to non-struct %s", name, typeName(v.Typ))
		}
		for i := 0; i < stt.NumFields(); i++ {
			f := stt.Field(i)
			if f.Name() != name {
				continue
			}
			fp := Val{Typ: types.NewPointer(f.Type()), C: []Term{v.T()}, Prefix: v.prefix() + "." + name, Idx: v.Idx}
			if _, isStruct := types.Unalias(f.Type()).Underlying().(*types.Struct); isStruct && !isNamed(f.Type(), "time", "Time") {
				return fp // interior place
			}
			if isSyncType(f.Type()) {
				return fp
			}
			return env.st.load(fp)
		}
		// ghost field?
		if g, ok := env.x.eng.ghostField(p.Elem(), name); ok {
			a := env.st.heapGet(v.prefix()+"."+name, ArrSort(g.Sort))
			return Val{Typ: g.Typ, C: []Term{Select(a, v.T())}}
		}
		sfail("no field %s in %s", name, typeName(p.Elem()))
	}
	if stt, ok := t.Underlying().(*types.Struct); ok {
		for i := 0; i < stt.NumFields(); i++ {
			if stt.Field(i).Name() == name {
				lo, hi := fieldRange(stt, i)
				return v.slice(lo, hi, stt.Field(i).Type())
			}
		}
		sfail("no field %s in %s", name, typeName(t))
	}
	sfail("field %s of %s", name, typeName(v.Typ))
	return Val{}
}

func (env *Env) index(n *EIndex) Val {
	v := env.eval(n.X)
	i := env.eval(n.I)
	t := types.Unalias(v.Typ)
	switch u := t.Underlying().(type) {
	case *types.Map:
		return env.st.mapGetRaw(v, i.T())
	case *types.Slice:
		return env.st.sliceGet(v, i.T())
	case *types.Pointer:
		_ = u
	}
	if v.Typ == setType {
		return boolVal(Select(v.T(), i.T()))
	}
	if v.Typ == ghostArrType {
		return intVal(Select(v.T(), i.T()))
	}
	sfail("cannot index %s", typeName(v.Typ))
	return Val{}
}

var ghostArrType types.Type = types.NewNamed(types.NewTypeName(0, nil, "ghostarr", nil), types.NewStruct(nil, nil), nil)

// setType marks spec-level sets of Int (Array Int Bool).
var setType types.Type = types.NewNamed(types.NewTypeName(0, nil, "set", nil), types.NewStruct(nil, nil), nil)

func (env *Env) bin(n *EBin) Val {
	switch n.Op {
	case "&&":
		return boolVal(And(env.evalBool(n.L), env.evalBool(n.R)))
	case "||":
		return boolVal(Or(env.evalBool(n.L), env.evalBool(n.R)))
	case "==>":
		return boolVal(Implies(env.evalBool(n.L), env.evalBool(n.R)))
	case "<==>":
		return boolVal(Eq(env.evalBool(n.L), env.evalBool(n.R)))
	case "in":
		k := env.eval(n.L)
		m := env.eval(n.R)
		if m.Typ == setType {
			return boolVal(Select(m.T(), k.T()))
		}
		if _, ok := types.Unalias(m.Typ).Underlying().(*types.Map); !ok {
			sfail("'in' needs a map or set, got %s", typeName(m.Typ))
		}
		return boolVal(env.st.mapHas(m, k.T()))
	}
	l := env.eval(n.L)
	r := env.eval(n.R)
	switch n.Op {
	case "==", "!=":
		if len(l.C) != len(r.C) {
			if l.Typ == untypedNil || r.Typ == untypedNil {
				// nil vs slice: compare backing ref
				if l.Typ == untypedNil {
					l, r = r, l
				}
				e := Eq(l.C[0], TZero)
				if n.Op == "!=" {
					e = Not(e)
				}
				return boolVal(e)
			}
			sfail("comparison of %s and %s", typeName(l.Typ), typeName(r.Typ))
		}
		var eqs []Term
		for i := range l.C {
			eqs = append(eqs, Eq(l.C[i], r.C[i]))
		}
		e := And(eqs...)
		if n.Op == "!=" {
			e = Not(e)
		}
		return boolVal(e)
	case "<":
		return boolVal(Lt(l.T(), r.T()))
	case "<=":
		return boolVal(Le(l.T(), r.T()))
	case ">":
		return boolVal(Gt(l.T(), r.T()))
	case ">=":
		return boolVal(Ge(l.T(), r.T()))
	case "+", "-", "*":
		return Val{Typ: arithType(l, r), C: []Term{app(l.T().Sort, n.Op, l.T(), r.T())}}
	case "/":
		if l.T().Sort == SReal {
			return Val{Typ: l.Typ, C: []Term{app(SReal, "/", l.T(), r.T())}}
		}
		return Val{Typ: arithType(l, r), C: []Term{app(SInt, "div", l.T(), r.T())}}
	case "%":
		return Val{Typ: arithType(l, r), C: []Term{app(SInt, "mod", l.T(), r.T())}}
	}
	sfail("operator %s", n.Op)
	return Val{}
}

func arithType(l, r Val) types.Type {
	if b, ok := l.Typ.(*types.Basic); ok && b.Info()&types.IsUntyped != 0 {
		return r.Typ
	}
	return l.Typ
}

func (env *Env) quant(n *EQuant) Val {
	c := env.child()
	var vars []Term
	var guards []Term
	for _, qv := range n.Vars {
		*env.qn++
		var t types.Type
		var sort Sort
		region := ""
		if qv.Type == "set" {
			t, sort = setType, ArrSort(SBool)
		} else {
			tt := qv.Type
			if k := strings.Index(tt, "@"); k >= 0 {
				region = strings.TrimSpace(tt[k+1:])
				tt = strings.TrimSpace(tt[:k])
			}
			t = env.pkg.resolveType(tt)
			cs := comps(t)
			if len(cs) != 1 {
				sfail("quantified variable %s of multi-component type %s", qv.Name, qv.Type)
			}
			sort = cs[0].Sort
		}
		v := Term{fmt.Sprintf("q!%s!%d", qv.Name, *env.qn), sort}
		vars = append(vars, v)
		c.vars[qv.Name] = Val{Typ: t, C: []Term{v}, Region: region}
		if t != setType {
			guards = append(guards, typeConstraint(t, []Term{v}))
		}
	}
	env.x.quantDepth++
	body := c.evalBool(n.Body)
	env.x.quantDepth--
	if n.Forall {
		return boolVal(Forall(vars, Implies(And(guards...), body)))
	}
	return boolVal(Exists(vars, And(And(guards...), body)))
}

func (env *Env) call(n *ECall) Val {
	x := env.x
	arg := func(i int) Val {
		if i >= len(n.Args) {
			sfail("%s: missing argument %d", n.Fn, i)
		}
		return env.eval(n.Args[i])
	}
	switch n.Fn {
	case "old":
		return env.inOld().eval(n.Args[0])
	case "len":
		v := arg(0)
		switch types.Unalias(v.Typ).Underlying().(type) {
		case *types.Map:
			return intVal(env.st.mapLen(v))
		case *types.Slice:
			return intVal(v.C[1])
		case *types.Basic:
			return intVal(x.strlen(v.T()))
		}
		sfail("len of %s", typeName(v.Typ))
	case "ite":
		c := env.evalBool(n.Args[0])
		a, b := arg(1), arg(2)
		out := Val{Typ: a.Typ}
		if a.Typ == untypedNil {
			out.Typ = b.Typ
		}
		for i := range a.C {
			out.C = append(out.C, Ite(c, a.C[i], b.C[i]))
		}
		return out
	case "fresh":
		v := arg(0)
		if env.oldAlloc == nil {
			sfail("fresh() outside a postcondition")
		}
		return boolVal(Gt(v.C[0], *env.oldAlloc))
	case "allocated":
		v := arg(0)
		return boolVal(Le(v.C[0], env.st.alloc))
	case "unchanged":
		var eqs []Term
		for i := range n.Args {
			a := env.eval(n.Args[i])
			b := env.inOld().eval(n.Args[i])
			for j := range a.C {
				eqs = append(eqs, Eq(a.C[j], b.C[j]))
			}
		}
		return boolVal(And(eqs...))
	case "same_contents":
		// same_contents(m): map m has the same entries now as in the pre-state
		var eqs []Term
		for i := range n.Args {
			m := env.eval(n.Args[i])
			mo := env.inOld().eval(n.Args[i])
			// the nil map holds nothing, before and after
			eqs = append(eqs, Or(And(Eq(m.T(), TZero), Eq(mo.T(), TZero)), env.mapContentsEq(env.st, m, env.inOld().st, mo)))
		}
		return boolVal(And(eqs...))
	case "decoded":
		msg := arg(0)
		t := env.pkg.resolveType(n.TypeArg)
		body := msgBody(msg)
		return Val{Typ: types.NewPointer(t), Dec: &Decoded{Body: body, Root: typeName(t), Path: "", Typ: t}}
	case "decode_ok":
		msg := arg(0)
		return boolVal(x.uf("decode_ok", []Sort{SInt}, SBool, msgBody(msg)))
	case "msgtype":
		msg := arg(0)
		return Val{Typ: types.Typ[types.Int], C: []Term{msg.C[0]}}
	case "enum":
		// enum(const): the boxed interface value of an enum constant
		v := arg(0)
		tn := typeName(v.Typ)
		box := x.decls.Fun("box:"+tn, []Sort{SInt}, SInt)
		bv := app(SInt, box, v.T())
		env.st.assume(Eq(x.uf("enumnum", []Sort{SInt}, SInt, bv), v.T()))
		env.st.assume(Neq(bv, TZero))
		return Val{Typ: types.Typ[types.Int], C: []Term{bv}}
	case "enumnum":
		v := arg(0)
		return intVal(x.uf("enumnum", []Sort{SInt}, SInt, v.T()))
	case "dyntype":
		v := arg(0)
		t := env.pkg.resolveType(n.TypeArg)
		return boolVal(And(Neq(v.T(), TZero), Eq(app(SInt, x.typeofFn(), v.T()), x.typeTag(t))))
	case "chancap":
		// chancap(c): the capacity channel c was made with
		a := env.st.heapGet("chan.cap", ArrSort(SInt))
		return intVal(Select(a, arg(0).T()))
	case "flag":
		// flag(F, name): name is set in feature-flag map F
		f := arg(0)
		nm := arg(1)
		return boolVal(env.st.mapHas(f, nm.T()))
	case "sent":
		r, m := arg(0), arg(1)
		a := env.st.heapGet("ghost.sent", ArrSort(ArrSort(SInt)))
		return intVal(Select(Select(a, r.T()), m.T()))
	case "delivered":
		r, m := arg(0), arg(1)
		a := env.st.heapGet("ghost.delivered", ArrSort(ArrSort(SInt)))
		return intVal(Select(Select(a, r.T()), m.T()))
	case "evcount":
		// evcount(Kind, pkg.MsgType, Field, key)
		kind := n.Args[0].(*EIdent).Name
		tn := exprTypeName(n.Args[1])
		t := env.pkg.resolveType(tn)
		fld := n.Args[2].(*EIdent).Name
		a := env.st.heapGet("ghost.ev:"+kind+":"+typeName(t)+":"+fld, ArrSort(SInt))
		return intVal(Select(a, arg(3).T()))
	case "serverid":
		return Val{Typ: types.Typ[types.String], C: []Term{x.uf("serverid", []Sort{SInt}, SInt, arg(0).T())}}
	case "gaugetotal":
		nm := n.Args[0].(*EIdent).Name
		a := env.st.heapGet("ghost.gaugetotal."+nm, ArrSort(SInt))
		return intVal(Select(a, TZero))
	case "real":
		v := arg(0)
		if v.T().Sort == SReal {
			return v
		}
		return Val{Typ: types.Typ[types.Float64], C: []Term{app(SReal, "to_real", v.T())}}
	case "isint":
		v := arg(0).T()
		return boolVal(Eq(v, app(SReal, "to_real", app(SInt, "to_int", v))))
	case "truncdiv":
		return intVal(x.truncDiv(arg(0).T(), arg(1).T()))
	case "gaugechild":
		return intVal(x.uf("gaugechild", []Sort{SInt, SInt}, SInt, arg(0).T(), arg(1).T()))
	case "usertoken":
		return Val{Typ: types.Typ[types.String], C: []Term{x.uf("usertoken", []Sort{SInt}, SInt, arg(0).T())}}
	case "authok":
		return boolVal(x.uf("authok", []Sort{SInt, SInt}, SBool, arg(0).T(), arg(1).T()))
	case "keccak":
		return intVal(x.uf("keccak", []Sort{SInt}, SInt, arg(0).C[0]))
	case "hashbytes":
		return Val{Typ: types.NewSlice(types.Typ[types.Byte]), C: []Term{x.uf("hashbytes", []Sort{SInt}, SInt, arg(0).T()), IntLit(32)}}
	case "sign":
		return Val{Typ: types.NewSlice(types.Typ[types.Byte]), C: []Term{x.uf("sign", []Sort{SInt, SInt}, SInt, arg(0).C[0], arg(1).T()), IntLit(65)}}
	case "hexenc":
		return Val{Typ: types.Typ[types.String], C: []Term{x.uf("hexenc", []Sort{SInt}, SInt, arg(0).C[0])}}
	case "ecrecover_ok":
		return boolVal(x.uf("ecrecover_ok", []Sort{SInt, SInt}, SBool, arg(0).C[0], arg(1).C[0]))
	case "bytes_eq":
		return boolVal(x.uf("bytes_eq", []Sort{SInt, SInt}, SBool, arg(0).C[0], arg(1).C[0]))
	case "bytesof":
		f := x.decls.Fun("bytesof", []Sort{SInt}, SInt)
		sv := arg(0)
		return Val{Typ: types.NewSlice(types.Typ[types.Byte]), C: []Term{app(SInt, f, sv.T()), x.strlen(sv.T())}}
	case "marshaled":
		// marshaled(bytes, T): the message of type *T the byte slice was marshaled from
		t := env.pkg.resolveType(n.TypeArg)
		return Val{Typ: types.NewPointer(t), C: []Term{x.uf("srcmsg", []Sort{SInt}, SInt, arg(0).C[0])}}
	case "evtotal":
		kind := n.Args[0].(*EIdent).Name
		a := env.st.heapGet("ghost.evn:"+kind, ArrSort(SInt))
		return intVal(Select(a, TZero))
	case "cancelled":
		a := env.st.heapGet("ghost.ctxcancelled", ArrSort(SBool))
		return boolVal(Select(a, arg(0).T()))
	case "once_done":
		p := arg(0)
		a := env.st.heapGet("once:"+p.prefix(), ArrSort(SBool))
		return boolVal(Select(a, p.T()))
	case "chan_ready":
		c := arg(0)
		a := env.st.heapGet("ghost.chanready", ArrSort(SBool))
		return boolVal(Select(a, c.T()))
	case "gauge":
		nm := n.Args[0].(*EIdent).Name
		a := env.st.heapGet("ghost.gauge."+nm, ArrSort(SInt))
		return intVal(Select(a, arg(1).T()))
	case "errtype":
		e := arg(0)
		return Val{Typ: types.Typ[types.String], C: []Term{x.errType(e.T())}}
	case "istype":
		return boolVal(x.errIsType(arg(0).T(), arg(1).T()))
	case "marshal_ok":
		return boolVal(x.uf("marshal_ok", []Sort{SInt}, SBool, arg(0).T()))
	case "msg_of":
		// the hwebsocket.Msg src component built from a proto message
		return arg(0)
	case "visited":
		sfail("visited(): use V inside loop invariants")
	case "implies":
		return boolVal(Implies(env.evalBool(n.Args[0]), env.evalBool(n.Args[1])))
	case "unchanged_world":
		return boolVal(env.unchangedWorld(nil))
	case "unchanged_except":
		var exc []string
		for _, a := range n.Args {
			exc = append(exc, a.(*EStr).V)
		}
		return boolVal(env.unchangedWorld(exc))
	case "keyof":
		// keyof(name, idx): ghost witness function
		nm := n.Args[0].(*EIdent).Name
		return intVal(x.uf("wit:"+nm, []Sort{SInt}, SInt, arg(1).T()))
	}
	if sf, ok := x.eng.specFns[n.Fn]; ok {
		if len(sf.Params) != len(n.Args) {
			sfail("%s: %d arguments expected", n.Fn, len(sf.Params))
		}
		c := env.child()
		c.pkg = x.eng.pkgs[sf.Pkg]
		c.lets = nil
		for i, p := range sf.Params {
			c.vars[p.Name] = env.eval(n.Args[i])
		}
		return c.eval(sf.Body)
	}
	if uf, ok := x.eng.ufs[n.Fn]; ok {
		pk := x.eng.pkgs[uf.Pkg]
		var sorts []Sort
		var ts []Term
		for i, p := range uf.Params {
			cs := comps(pk.resolveType(p))
			sorts = append(sorts, cs[0].Sort)
			ts = append(ts, arg(i).T())
		}
		rt := pk.resolveType(uf.Ret)
		rs := comps(rt)[0].Sort
		t := x.uf("uf:"+uf.Name, sorts, rs, ts...)
		x.declareUFRange(uf, sorts, rs, rt)
		if uf.Injective {
			x.declareInjective(uf, sorts, rs)
		}
		return Val{Typ: rt, C: []Term{t}}
	}
	sfail("unknown function %s", n.Fn)
	return Val{}
}

// declareUFRange: results of a spec-level uninterpreted function respect their Go type.
func (x *Exec) declareUFRange(uf *UFDecl, sorts []Sort, rs Sort, rt types.Type) {
	key := "$rng:" + uf.Name
	if _, ok := x.tags[key]; ok {
		return
	}
	x.tags[key] = 1
	f := x.decls.Fun("uf:"+uf.Name, sorts, rs)
	var as []Term
	for i, s := range sorts {
		as = append(as, Term{fmt.Sprintf("a!%d", i), s})
	}
	if tc := typeConstraint(rt, []Term{app(rs, f, as...)}); tc.S != "true" {
		x.decls.Axiom(Forall(as, tc))
	}
}

func (x *Exec) declareInjective(uf *UFDecl, sorts []Sort, rs Sort) {
	key := "$inj:" + uf.Name
	if _, ok := x.tags[key]; ok {
		return
	}
	x.tags[key] = 1
	f := x.decls.Fun("uf:"+uf.Name, sorts, rs)
	// injectivity through inverse functions: inv_i(f(a_0..a_n)) = a_i (single-pattern, E-matching friendly)
	var as []Term
	for i, s := range sorts {
		as = append(as, Term{fmt.Sprintf("a!%d", i), s})
	}
	fa := app(rs, f, as...)
	for i, s := range sorts {
		inv := x.decls.Fun(fmt.Sprintf("uf:%s!inv%d", uf.Name, i), []Sort{rs}, s)
		x.decls.Axiom(Forall(as, Eq(app(s, inv, fa), as[i])))
	}
}

func msgBody(msg Val) Term {
	// hwebsocket.Msg components: .Type, .Time, .body#a, .body#l
	cs := comps(msg.Typ)
	for i, c := range cs {
		if c.Suffix == ".body#a" {
			return msg.C[i]
		}
	}
	sfail("not a websocket Msg: %s", typeName(msg.Typ))
	return Term{}
}

// mapContentsEq: map m (in st1) and mo (in st2) have identical entries.
func (env *Env) mapContentsEq(st1 *State, m Val, st2 *State, mo Val) Term {
	a1 := st1.mapArrays(m)
	a2 := st2.mapArrays(mo)
	eqs := []Term{Eq(Select(a1.dom, m.T()), Select(a2.dom, mo.T())), Eq(Select(a1.card, m.T()), Select(a2.card, mo.T()))}
	for i := range a1.vals {
		eqs = append(eqs, Eq(Select(a1.vals[i], m.T()), Select(a2.vals[i], mo.T())))
	}
	return And(eqs...)
}

// unchangedWorld: every heap array agrees with its entry version on pre-existing references.
func (env *Env) unchangedWorld(except []string) Term {
	st := env.st
	old := env.oldHeap
	if old == nil {
		return TTrue
	}
	var out []Term
	i := Term{"i!uw", SInt}
	for _, w := range wildRecs(st.heap) {
		if _, before := old[wildKeyPrefix+w.seq]; before {
			continue
		}
		for _, pat := range w.pats {
			if strings.HasPrefix(pat, "ghost.") || strings.HasPrefix(pat, "cell:") || strings.HasPrefix(pat, "lock.") {
				continue
			}
			skip := false
			for _, e := range except {
				if pat == e || strings.HasPrefix(pat, e) {
					skip = true
				}
			}
			if !skip {
				// a callee with a wildcard frame ran: arrays nobody looked at may have changed
				return TFalse
			}
		}
	}
	for _, name := range sortedKeys(st.heap) {
		if strings.HasPrefix(name, wildKeyPrefix) {
			continue
		}
		if strings.HasPrefix(name, "ghost.") || strings.HasPrefix(name, "cell:") || strings.HasPrefix(name, "lock.") {
			continue
		}
		skip := false
		for _, e := range except {
			if name == e || strings.HasPrefix(name, e) {
				skip = true
			}
		}
		if skip {
			continue
		}
		cur := st.heap[name]
		var was Term
		if o, ok := old[name]; ok {
			was = o
		} else if w, ok := lastWildFor(old, name); ok {
			was = env.x.decls.Const(name+"@w"+w.seq, cur.Sort)
		} else {
			was = env.x.decls.Const(name+"@0", cur.Sort)
		}
		if cur.S == was.S {
			continue
		}
		lim := env.oldAlloc
		if lim == nil {
			out = append(out, Eq(cur, was))
			continue
		}
		// reference 0 is nil: it is no object and holds nothing
		out = append(out, Forall([]Term{i}, Implies(And(Gt(i, TZero), Le(i, *lim)), Eq(Select(cur, i), Select(was, i)))))
	}
	return And(out...)
}

// ---- decoded messages ----

func (env *Env) decodedField(v Val, name string) Val {
	d := v.Dec
	stt, ok := d.Typ.Underlying().(*types.Struct)
	if !ok {
		sfail("decoded value is not a struct")
	}
	for i := 0; i < stt.NumFields(); i++ {
		f := stt.Field(i)
		if f.Name() != name {
			continue
		}
		return env.x.decodedValue(d.Body, d.Root, d.Path+"."+name, f.Type())
	}
	sfail("no field %s in decoded %s", name, typeName(d.Typ))
	return Val{}
}

// decodedValue returns the spec-level value of a decoded field: UF applications of the message body.
func (x *Exec) decodedValue(body Term, root, path string, t types.Type) Val {
	if p, ok := types.Unalias(t).Underlying().(*types.Pointer); ok {
		if _, isStruct := p.Elem().Underlying().(*types.Struct); isStruct {
			ref := x.uf("decref:"+root+path, []Sort{SInt}, SInt, body)
			return Val{Typ: t, C: []Term{ref}, Dec: &Decoded{Body: body, Root: root, Path: path, Typ: p.Elem()}}
		}
	}
	out := Val{Typ: t}
	for _, c := range comps(t) {
		out.C = append(out.C, x.uf("dec:"+root+path+c.Suffix, []Sort{SInt}, c.Sort, body))
	}
	return out
}

package main

import (
	"fmt"
	"go/constant"
	"go/types"
	"strings"

	"golang.org/x/tools/go/ssa"
)

const maxInlineDepth = 14

func (x *Exec) doCall(st *State, instr ssa.CallInstruction, ret ssa.Value) {
	c := instr.Common()
	var args []Val
	for _, a := range c.Args {
		args = append(args, x.eval(st, a))
	}
	var fnval Val
	if c.IsInvoke() || c.StaticCallee() == nil {
		fnval = x.eval(st, c.Value)
	}
	x.invoke(st, c, args, fnval, ret, instr)
}

// invoke performs a call described by c with already-evaluated arguments.
func (x *Exec) invoke(st *State, c *ssa.CallCommon, args []Val, fnval Val, ret ssa.Value, site ssa.Instruction) {
	if c.IsInvoke() {
		recv := fnval
		if recv.Dyn != nil {
			// statically known dynamic type: resolve the method
			sel := x.eng.prog.MethodSets.MethodSet(recv.Dyn).Lookup(c.Method.Pkg(), c.Method.Name())
			if sel != nil {
				fn := x.eng.prog.MethodValue(sel)
				if fn != nil {
					x.dispatch(st, fn, append([]Val{*recv.Inner}, args...), nil, ret, site)
					return
				}
			}
		}
		key := "(" + typeName(recv.Typ) + ")." + c.Method.Name()
		st.requireNonNil(recv.T(), "invoke:"+c.Method.Name())
		x.callByKey(st, key, nil, append([]Val{recv}, args...), c.Signature().Results(), ret, site)
		return
	}
	if fn := c.StaticCallee(); fn != nil {
		var cl *Closure
		if mc, ok := c.Value.(*ssa.MakeClosure); ok {
			v := x.eval(st, mc)
			cl = v.Fn
		}
		x.dispatch(st, fn, args, cl, ret, site)
		return
	}
	if _, ok := c.Value.(*ssa.Builtin); ok {
		x.builtinCall(st, c.Value.(*ssa.Builtin), args, ret, site)
		return
	}
	// dynamic call through a function value
	if fnval.Fn != nil && fnval.Fn.Builtin == "cancel" {
		ctx := fnval.Fn.Bindings[0]
		arr := st.heapGet("ghost.ctxcancelled", ArrSort(SBool))
		st.heapSetAt("ghost.ctxcancelled", Store(arr, ctx.T(), TTrue), nil)
		x.setResult(st, ret, nil)
		return
	}
	if fnval.Fn != nil {
		x.dispatch(st, fnval.Fn.Fn, args, fnval.Fn, ret, site)
		return
	}
	st.requireNonNil(fnval.T(), "callfn")
	st.addEvent(Event{Kind: "callfn", Args: append([]Val{fnval}, args...)})
	x.assumeNote("A-opaque-fn: a call through a function value that is not a literal closure is an abstract event; its effects on contract-visible state are not modelled")
	x.setResult(st, ret, x.symbolicResults(st, c.Signature().Results(), "dyn"))
}

func (x *Exec) symbolicResults(st *State, res *types.Tuple, hint string) []Val {
	var out []Val
	for i := 0; i < res.Len(); i++ {
		out = append(out, st.symbolic(res.At(i).Type(), hint))
	}
	return out
}

func (x *Exec) setResult(st *State, ret ssa.Value, res []Val) {
	if ret == nil {
		return
	}
	switch len(res) {
	case 0:
		st.set(ret, Val{Typ: ret.Type()})
	case 1:
		st.set(ret, res[0])
	default:
		st.set(ret, Val{Typ: ret.Type(), Sub: res})
	}
}

func (x *Exec) dispatch(st *State, fn *ssa.Function, args []Val, cl *Closure, ret ssa.Value, site ssa.Instruction) {
	key := funcKey(fn)
	x.pendingClosure = cl
	if spec, ok := x.eng.funcSpecs[key]; ok && fn != x.fn && !(x.eng.inlineAll) && spec.IsFunctional() {
		x.applyContract(st, spec, fn, args, ret, site)
		return
	}
	if x.callByKey(st, key, fn, args, fn.Signature.Results(), ret, site) {
		return
	}
}

// callByKey handles builtins (assumed contracts), interface-method contracts, inlining and the fallback.
func (x *Exec) callByKey(st *State, key string, fn *ssa.Function, args []Val, results *types.Tuple, ret ssa.Value, site ssa.Instruction) bool {
	if fn == nil {
		if spec, ok := x.eng.funcSpecs[key]; ok && spec.IsFunctional() {
			x.applyContract(st, spec, nil, args, ret, site)
			return true
		}
	}
	if b, ok := builtins[key]; ok {
		x.usedSpecs["assumed:"+key] = true
		caller := st.top()
		res := b(x, st, args, site)
		if st.dead {
			return true
		}
		if ret != nil {
			switch len(res) {
			case 0:
				if _, done := caller.locals[ret]; !done {
					caller.locals[ret] = Val{Typ: ret.Type()}
				}
			case 1:
				caller.locals[ret] = res[0]
			default:
				caller.locals[ret] = Val{Typ: ret.Type(), Sub: res}
			}
		}
		return true
	}
	if fn != nil && fn.Blocks == nil && isInlineableExternal(key) && fn.Pkg != nil {
		fn.Pkg.Build()
	}
	if fn != nil && fn.Blocks != nil && inRepo(fn) && x.eng.sweepLoops && hasLoop(fn) {
		x.checkCalleeLocks(st, fn, key)
		x.assumeNote("sweep: calls to repository functions that contain loops and have no contract are summarised as opaque (the callee is swept on its own)")
		x.setResult(st, ret, x.symbolicResults(st, results, "opaque"))
		return true
	}
	if fn != nil && fn.Blocks != nil && (inRepo(fn) || isInlineableExternal(key)) {
		if len(st.frames) >= maxInlineDepth {
			unsupp("inline depth exceeded at %s", key)
		}
		x.inlined[key] = true
		fr := &Frame{fn: fn, locals: map[ssa.Value]Val{}, block: fn.Blocks[0], retInstr: ret}
		if key == "(featureflag.FeatureFlag).IfNotSet" || key == "(featureflag.FeatureFlag).IfSet" {
			fr.flagGuard = "?"
			if ci, ok := site.(ssa.CallInstruction); ok && len(ci.Common().Args) >= 2 {
				if c, ok := ci.Common().Args[1].(*ssa.Const); ok && c.Value != nil {
					fr.flagGuard = constant.StringVal(c.Value)
				}
			}
		}
		for i, p := range fn.Params {
			a := args[i]
			a.Typ = p.Type()
			fr.locals[p] = a
		}
		st.frames = append(st.frames, fr)
		if len(fn.FreeVars) > 0 {
			// closure call: bindings come from the MakeClosure value
			fr.closure = x.findClosure(st, fn, args, site)
		}
		return true
	}
	// fallback for benign externals
	if pol := externalPolicy(key); pol != "" {
		x.usedSpecs["assumed-pure:"+key] = true
		x.assumeNote("A-ext-pure: external calls in logging/metrics/formatting packages return arbitrary values and do not touch contract-visible state")
		res := x.symbolicResults(st, results, "ext")
		if pol == "nonnil" {
			for _, r := range res {
				if len(r.C) == 1 && r.C[0].Sort == SInt {
					st.assume(Neq(r.C[0], TZero))
				}
			}
		}
		x.setResult(st, ret, res)
		return true
	}
	if fn == nil {
		// interface method without a model: opaque call
		x.usedSpecs["opaque-interface-call:"+key] = true
		x.assumeNote("A-opaque-iface: calls through interfaces without a contract (" + key + " ...) return arbitrary values and are assumed not to touch contract-visible state")
		st.addEvent(Event{Kind: "icall:" + key, Args: args})
		x.setResult(st, ret, x.symbolicResults(st, results, "icall"))
		return true
	}
	if !inRepo(fn) {
		x.usedSpecs["opaque-external-call:"+key] = true
		x.assumeNote("A-opaque-ext: external functions without a model return arbitrary values and are assumed not to touch contract-visible state")
		x.setResult(st, ret, x.symbolicResults(st, results, "ext"))
		return true
	}
	unsupp("call to %s has no contract, model or body", key)
	return false
}

func (x *Exec) findClosure(st *State, fn *ssa.Function, args []Val, site ssa.Instruction) *Closure {
	return x.pendingClosure
}

func isInlineableExternal(key string) bool {
	// generated protobuf getters (nil-safe field reads)
	return strings.Contains(key, "common/messages/") && strings.Contains(key, ").Get")
}

func externalPolicy(key string) string {
	for _, p := range []string{
		"github.com/aukilabs/go-tooling/pkg/logs.", "(github.com/aukilabs/go-tooling/pkg/logs.",
		"(*github.com/aukilabs/go-tooling/pkg/logs.",
		"github.com/prometheus/", "(github.com/prometheus/", "(*github.com/prometheus/",
		"fmt.Sprint", "fmt.Errorf", "strconv.",
	} {
		if strings.HasPrefix(key, p) {
			if strings.Contains(key, "logs.") || strings.Contains(key, "prometheus") {
				return "nonnil"
			}
			return "any"
		}
	}
	return ""
}

// ---------- contracts at call sites ----------

func shortFuncName(key string) string {
	if i := strings.LastIndex(key, "."); i >= 0 {
		return key[i+1:]
	}
	return key
}

func (x *Exec) specParams(spec *FuncSpec, fn *ssa.Function, args []Val) map[string]Val {
	vars := map[string]Val{}
	if fn != nil {
		for i, p := range fn.Params {
			if i < len(args) {
				a := args[i]
				a.Typ = p.Type()
				vars[p.Name()] = a
				if x.eng.nameAliases != nil {
					for _, old := range x.eng.nameAliases[funcKey(fn)][p.Name()] {
						vars[old] = a
					}
				}
			}
		}
		return vars
	}
	// interface method contract: parameters named recv, a0, a1, ...
	for i, a := range args {
		if i == 0 {
			vars["recv"] = a
		} else {
			vars[fmt.Sprintf("a%d", i-1)] = a
		}
	}
	return vars
}

func (x *Exec) newEnv(st *State, spec *FuncSpec, vars map[string]Val) *Env {
	pk := x.eng.pkgForFile(spec.File)
	qn := new(int)
	*qn = x.nfresh * 1000
	env := &Env{x: x, st: st, vars: vars, lets: map[string]Expr{}, pkg: pk, qn: qn}
	for _, l := range spec.Lets {
		env.lets[l.Name] = l.X
	}
	return env
}

func copyHeap(h map[string]Term) map[string]Term {
	n := make(map[string]Term, len(h))
	for k, v := range h {
		n[k] = v
	}
	return n
}

func (x *Exec) applyContract(st *State, spec *FuncSpec, fn *ssa.Function, args []Val, ret ssa.Value, site ssa.Instruction) {
	x.usedSpecs[spec.Key] = true
	if !spec.HasMod {
		unsupp("contract of %s has no modifies clause but is used at a call site", spec.Key)
	}
	for _, a := range args {
		if _, isPtr := types.Unalias(a.Typ).Underlying().(*types.Pointer); isPtr && a.Idx != nil {
			unsupp("slice-element pointer passed to contracted function %s", spec.Key)
		}
	}
	x.checkCalleeLocks(st, fn, spec.Key)
	vars := x.specParams(spec, fn, args)
	if fn != nil && len(fn.FreeVars) > 0 && x.pendingClosure != nil && x.pendingClosure.Fn == fn {
		for i, fv := range fn.FreeVars {
			b := x.pendingClosure.Bindings[i]
			if capturedByRef(fn, fv) {
				st.requireNonNil(b.T(), "captured:"+fv.Name())
				vars[fv.Name()] = st.load(b)
			} else {
				vars[fv.Name()] = b
			}
			if x.eng.nameAliases != nil {
				for _, old := range x.eng.nameAliases[funcKey(fn)][fv.Name()] {
					vars[old] = vars[fv.Name()]
				}
			}
		}
	}
	env := x.newEnv(st, spec, vars)
	// lets bind pre-state values: evaluate them now
	preLets := map[string]Val{}
	for _, l := range spec.Lets {
		preLets[l.Name] = env.eval(l.X)
		env.vars[l.Name] = preLets[l.Name]
	}
	env.lets = map[string]Expr{}
	siteName := x.site("call:" + shortFuncName(spec.Key))
	if fn != nil && fn.Signature.Recv() != nil && len(args) > 0 {
		if _, isPtr := types.Unalias(fn.Params[0].Type()).Underlying().(*types.Pointer); isPtr {
			st.requireNonNil(args[0].T(), "recv:"+shortFuncName(spec.Key))
		}
	}
	for _, r := range spec.Requires {
		g := env.evalBool(r.X)
		st.oblige(fmt.Sprintf("pre:%s/%d@%s", spec.Key, r.N, siteName), x.tagsFor(r.Tags, spec.Tags), g, "precondition of "+spec.Key+": "+r.Text)
		st.assume(g)
	}
	oldHeap := copyHeap(st.heap)
	oldAlloc := st.alloc
	// havoc the frame
	x.havocModifies(st, spec, env)
	if spec.Allocates {
		na := st.fresh("alloc", SInt)
		st.assume(Ge(na, st.alloc))
		st.alloc = na
	}
	st.flushAxioms()
	for _, pw := range st.pendingWild {
		st.recordWild(pw[0], pw[1])
	}
	st.pendingWild = nil
	// results
	var results *types.Tuple
	if fn != nil {
		results = fn.Signature.Results()
	} else if ret != nil {
		if tt, ok := ret.Type().(*types.Tuple); ok {
			results = tt
		} else {
			results = types.NewTuple(types.NewVar(0, nil, "", ret.Type()))
		}
	} else {
		results = types.NewTuple()
	}
	res := x.symbolicResults(st, results, "res_"+sanitize(shortFuncName(spec.Key)))
	penv := x.newEnv(st, spec, vars)
	penv.lets = map[string]Expr{}
	for k, v := range preLets {
		penv.vars[k] = v
	}
	penv.oldHeap = oldHeap
	penv.oldAlloc = &oldAlloc
	bindResults(penv, res)
	// names bound by bind(...) in the callee's emits are existential for the caller
	hasEmits := spec.HasEmits
	for _, b := range spec.Behaviours {
		hasEmits = hasEmits || b.HasEmits
	}
	if hasEmits && !spec.Event {
		unsupp("contract of %s declares emits but is not an abstract event: callers would not see its events", spec.Key)
	}
	x.bindEmitNames(st, penv, spec.Emits)
	for _, b := range spec.Behaviours {
		x.bindEmitNames(st, penv, b.Emits)
	}
	for _, e := range spec.Ensures {
		st.assume(penv.evalBool(e.X))
	}
	for _, e := range spec.TrustedEnsures {
		st.assume(penv.evalBool(e.X))
		x.assumeNote("A-trusted-clause: " + spec.Key + " trusted_ensures " + e.Text)
	}
	oenv := penv.inOld()
	for _, b := range spec.Behaviours {
		var as []Term
		for _, a := range b.Assumes {
			as = append(as, oenv.evalBool(a.X))
		}
		var es []Term
		for _, e := range b.Ensures {
			es = append(es, penv.evalBool(e.X))
		}
		st.assume(Implies(And(as...), And(es...)))
	}
	x.setResult(st, ret, res)
	if spec.Event {
		name := spec.EventName
		if name == "" {
			name = shortFuncName(spec.Key)
		}
		st.addEvent(Event{Kind: name, Args: args})
	}
	// higher-order calls
	x.curFlagGuard = ""
	if spec.Key == "(featureflag.FeatureFlag).IfNotSet" || spec.Key == "(featureflag.FeatureFlag).IfSet" {
		x.curFlagGuard = "?"
		if ci, ok := site.(ssa.CallInstruction); ok && len(ci.Common().Args) >= 2 {
			if c, ok := ci.Common().Args[1].(*ssa.Const); ok && c.Value != nil {
				x.curFlagGuard = constant.StringVal(c.Value)
			}
		}
	}
	for _, cs := range spec.Calls {
		x.applyCallsSpec(st, spec, cs, vars, penv, fn)
		if st.dead {
			return
		}
	}
}

func bindResults(env *Env, res []Val) {
	if len(res) == 1 {
		env.vars["result"] = res[0]
	}
	for i, r := range res {
		env.vars[fmt.Sprintf("result%d", i)] = r
	}
}

func (x *Exec) tagsFor(clause, fn []string) []string {
	if len(clause) > 0 {
		return clause
	}
	return fn
}

func (x *Exec) applyCallsSpec(st *State, spec *FuncSpec, cs *CallsSpec, vars map[string]Val, penv *Env, fn *ssa.Function) {
	fv, ok := vars[cs.Param]
	if !ok {
		sfail("calls: no parameter %s in %s", cs.Param, spec.Key)
	}
	sig, ok := types.Unalias(fv.Typ).Underlying().(*types.Signature)
	if !ok {
		sfail("calls: parameter %s is not a function", cs.Param)
	}
	cond := TTrue
	if cs.When != nil {
		cond = penv.inOld().evalBool(cs.When)
	}
	// callback arguments
	var cargs []Val
	cenv := penv.child()
	for i := 0; i < sig.Params().Len(); i++ {
		a := st.symbolic(sig.Params().At(i).Type(), "cbarg")
		cargs = append(cargs, a)
		if i < len(cs.Args) {
			cenv.vars[cs.Args[i]] = a
		}
	}
	skip := st.clone()
	skip.assume(Not(cond))
	x.pushWork(skip)
	st.assume(cond)
	for _, w := range cs.With {
		st.assume(cenv.evalBool(w.X))
	}
	if fv.Fn != nil {
		// the callback runs while the callee holds the declared locks
		var pushed []HeldLock
		if recv, ok := vars[recvName(fn)]; ok {
			for _, hspec := range cs.Holding {
				name, mode := hspec, "R"
				if k := strings.Index(hspec, ":"); k >= 0 {
					name, mode = hspec[:k], strings.ToUpper(hspec[k+1:])
				}
				hl := HeldLock{Field: typeName(ptrElem(recv.Typ)) + "." + name, Ref: recv.T(), Mode: mode}
				pushed = append(pushed, hl)
				st.held = append(st.held, hl)
			}
		}
		x.dispatchClosure(st, fv.Fn, cargs)
		st.top().flagGuard = x.curFlagGuard
		if len(pushed) > 0 {
			st.top().cont = func(s2 *State, _ []Val) {
				for _, hl := range pushed {
					for i := len(s2.held) - 1; i >= 0; i-- {
						if s2.held[i].Field == hl.Field && s2.held[i].Ref.S == hl.Ref.S && s2.held[i].Mode == hl.Mode {
							s2.held = append(s2.held[:i], s2.held[i+1:]...)
							break
						}
					}
				}
			}
		}
		return
	}
	st.addEvent(Event{Kind: "callfn", Args: append([]Val{fv}, cargs...)})
}

func recvName(fn *ssa.Function) string {
	if fn != nil && fn.Signature.Recv() != nil && len(fn.Params) > 0 {
		return fn.Params[0].Name()
	}
	return "recv"
}

func (x *Exec) dispatchClosure(st *State, cl *Closure, args []Val) {
	fn := cl.Fn
	if fn.Blocks == nil {
		unsupp("closure without body %s", funcKey(fn))
	}
	if len(st.frames) >= maxInlineDepth {
		unsupp("inline depth exceeded at closure %s", funcKey(fn))
	}
	fr := &Frame{fn: fn, locals: map[ssa.Value]Val{}, block: fn.Blocks[0], closure: cl}
	for i, p := range fn.Params {
		a := args[i]
		a.Typ = p.Type()
		fr.locals[p] = a
	}
	st.frames = append(st.frames, fr)
}

// evalLoc evaluates a location expression (x.f.g) to a pointer value.
func (env *Env) evalLoc(e Expr) Val {
	switch n := e.(type) {
	case *EField:
		base := env.eval(n.X)
		p, ok := types.Unalias(base.Typ).Underlying().(*types.Pointer)
		if !ok {
			sfail("location %v: base is not a pointer", n.Name)
		}
		stt, ok := p.Elem().Underlying().(*types.Struct)
		if !ok {
			sfail("location: base is not a pointer to struct")
		}
		for i := 0; i < stt.NumFields(); i++ {
			f := stt.Field(i)
			if f.Name() == n.Name {
				return Val{Typ: types.NewPointer(f.Type()), C: []Term{base.T()}, Prefix: base.prefix() + "." + n.Name, Idx: base.Idx}
			}
		}
		if g, ok := env.x.eng.ghostField(p.Elem(), n.Name); ok {
			return Val{Typ: types.NewPointer(g.Typ), C: []Term{base.T()}, Prefix: base.prefix() + "." + n.Name}
		}
		sfail("location: no field %s", n.Name)
	}
	sfail("unsupported location expression")
	return Val{}
}

// modLocs describes the frame of a contract, resolved against a state.
type modLocs struct {
	precise map[string][]Term // array name -> allowed indices
	coarse  map[string]bool   // array name fully havoced
	wild    []string          // name prefixes fully havoced
	sorts   map[string]Sort
	keep    []string
}

func (ml modLocs) isCoarse(name string) bool {
	if ml.coarse[name] {
		return true
	}
	for _, k := range ml.keep {
		if strings.Contains(name, k) {
			return false
		}
	}
	for _, w := range ml.wild {
		if strings.Contains(name, w) {
			return true
		}
	}
	return false
}

func (x *Exec) resolveModifies(st *State, spec *FuncSpec, env *Env) modLocs {
	ml := modLocs{precise: map[string][]Term{}, coarse: map[string]bool{}, sorts: map[string]Sort{}, keep: spec.Preserves}
	oenv := env
	for _, mi := range spec.Modifies {
		switch {
		case mi.Coarse:
			raw := mi.Raw
			if strings.HasPrefix(raw, "contents(") && strings.HasSuffix(raw, ")") {
				// all contents(MapType @ region)
				inner := raw[len("contents(") : len(raw)-1]
				region := ""
				if k := strings.Index(inner, "@"); k >= 0 {
					region = strings.TrimSpace(inner[k+1:])
					inner = strings.TrimSpace(inner[:k])
				}
				t := env.pkg.resolveType(inner)
				n := mapKeyName(t)
				if region != "" {
					n = region
				}
				ml.coarse["mapdom:"+n] = true
				ml.coarse["mapcard:"+n] = true
				for _, c := range comps(mapType(t).Elem()) {
					ml.coarse["mapval:"+n+c.Suffix] = true
				}
				continue
			}
			if strings.HasSuffix(raw, "*") {
				ml.wild = append(ml.wild, strings.TrimSuffix(raw, "*"))
				continue
			}
			if strings.HasPrefix(raw, "ghost.") || strings.HasPrefix(raw, "once:") || strings.HasPrefix(raw, "chan.") {
				ml.coarse[raw] = true
				continue
			}
			// T.field
			k := strings.LastIndex(raw, ".")
			t := env.pkg.resolveType(raw[:k])
			fname := raw[k+1:]
			stt, ok := t.Underlying().(*types.Struct)
			if !ok {
				sfail("modifies all %s: not a struct type", raw)
			}
			found := false
			for i := 0; i < stt.NumFields(); i++ {
				if stt.Field(i).Name() == fname {
					found = true
					for _, c := range comps(stt.Field(i).Type()) {
						ml.coarse[typeName(t)+"."+fname+c.Suffix] = true
					}
				}
			}
			if !found {
				sfail("modifies all %s: no such field", raw)
			}
		case mi.Contents:
			m := oenv.eval(mi.X)
			mt, ok := types.Unalias(m.Typ).Underlying().(*types.Map)
			if !ok {
				if _, isSlice := types.Unalias(m.Typ).Underlying().(*types.Slice); isSlice {
					elem := sliceElem(m.Typ)
					for _, c := range comps(elem) {
						n := elemPrefix(elem) + c.Suffix
						ml.precise[n] = append(ml.precise[n], m.C[0])
					}
					continue
				}
				sfail("contents() of non-map %s", typeName(m.Typ))
			}
			n := st.region(m)
			ref := m.T()
			if mi.Cond != nil {
				// outside its condition the item denotes the nil map (reference 0), which holds nothing
				ref = Ite(oenv.evalBool(mi.Cond), ref, TZero)
			}
			ml.precise["mapdom:"+n] = append(ml.precise["mapdom:"+n], ref)
			ml.precise["mapcard:"+n] = append(ml.precise["mapcard:"+n], ref)
			for _, c := range comps(mt.Elem()) {
				ml.precise["mapval:"+n+c.Suffix] = append(ml.precise["mapval:"+n+c.Suffix], ref)
				ml.sorts["mapval:"+n+c.Suffix] = ArrSort(ArrSort(c.Sort))
				x.noteLeaf("mapval:"+n+c.Suffix, c)
			}
		default:
			p := oenv.evalLoc(mi.X)
			elem := ptrElem(p.Typ)
			if isNamed(elem, "sync", "Once") {
				n := "once:" + p.prefix()
				ml.precise[n] = append(ml.precise[n], p.T())
				continue
			}
			if isSyncType(elem) {
				continue
			}
			for _, c := range comps(elem) {
				n := p.prefix() + c.Suffix
				ml.precise[n] = append(ml.precise[n], p.T())
				ml.sorts[n] = ArrSort(c.Sort)
				x.noteLeaf(n, c)
			}
			if g, ok := x.eng.ghostFieldByPrefix(p.prefix()); ok {
				_ = g
			}
		}
	}
	return ml
}

func (x *Exec) arraySort(st *State, name string) (Sort, bool) {
	if t, ok := st.heap[name]; ok {
		return t.Sort, true
	}
	if s, ok := x.baseArrays[name]; ok {
		return s, true
	}
	return "", false
}

func (x *Exec) havocModifies(st *State, spec *FuncSpec, env *Env) {
	ml := x.resolveModifies(st, spec, env)
	if len(ml.wild) > 0 {
		st.pendingWild = append(st.pendingWild, [2][]string{append([]string(nil), ml.wild...), append([]string(nil), ml.keep...)})
		for _, name := range sortedKeys(st.heap) {
			if strings.HasPrefix(name, wildKeyPrefix) {
				continue
			}
			if ml.isCoarse(name) {
				ml.coarse[name] = true
			}
		}
		for name := range x.baseArrays {
			if ml.isCoarse(name) {
				ml.coarse[name] = true
			}
		}
	}
	for _, name := range sortedKeys(ml.coarse) {
		s, ok := x.arraySort(st, name)
		if !ok {
			s = x.eng.guessArraySort(name)
			if s == "" {
				// not looked at by anybody in this unit so far: remember the havoc for a later first look
				st.pendingWild = append(st.pendingWild, [2][]string{{name}, nil})
				continue
			}
		}
		before := st.heapGet(name, s)
		st.calleeHavoc = true
		after := st.heapHavoc(name, s)
		st.calleeHavoc = false
		// a callee cannot reach the caller's non-escaping locals
		for _, lr := range st.localRefs {
			if strings.HasPrefix(name, lr.prefix) {
				st.assume(Eq(Select(after, lr.ref), Select(before, lr.ref)))
			}
		}
	}
	for _, name := range sortedKeys(ml.precise) {
		if ml.coarse[name] {
			continue
		}
		s, ok := x.arraySort(st, name)
		if !ok {
			s = x.eng.guessArraySort(name)
			if s == "" {
				s = ml.sorts[name]
			}
			if s == "" {
				sfail("modifies: cannot determine sort of %s", name)
			}
		}
		a := st.heapGet(name, s)
		for _, idx := range ml.precise[name] {
			hv := st.fresh("hv", s.Elem())
			st.pendingAx = append(st.pendingAx, pendingAxiom{name, hv, true})
			a = Store(a, idx, hv)
		}
		st.heapSet(name, a)
	}
}

// ---------- builtin functions of the language ----------

func (x *Exec) builtinCall(st *State, b *ssa.Builtin, args []Val, ret ssa.Value, site ssa.Instruction) {
	switch b.Name() {
	case "len":
		v := args[0]
		switch types.Unalias(v.Typ).Underlying().(type) {
		case *types.Map:
			if ci, ok := site.(*ssa.Call); ok {
				x.guardCheckMap(st, ci.Call.Args[0], false)
			}
			st.set(ret, intVal(st.mapLen(v)))
		case *types.Slice:
			st.assume(Ge(v.C[1], TZero))
			st.set(ret, intVal(v.C[1]))
		case *types.Basic:
			st.set(ret, intVal(x.strlen(v.T())))
		case *types.Chan:
			a := st.heapGet("chan.len", ArrSort(SInt))
			l := st.fresh("chanlen", SInt)
			st.assume(Ge(l, TZero))
			_ = a
			if st.chanLens == nil {
				st.chanLens = map[string]Term{}
			}
			st.chanLens[v.T().S] = l
			st.set(ret, intVal(l))
		default:
			unsupp("len of %s", typeName(v.Typ))
		}
	case "cap":
		v := args[0]
		if _, ok := types.Unalias(v.Typ).Underlying().(*types.Slice); ok {
			c := st.fresh("cap", SInt)
			st.assume(Ge(c, v.C[1]))
			st.set(ret, intVal(c))
			return
		}
		unsupp("cap of %s", typeName(v.Typ))
	case "delete":
		if ci, ok := site.(*ssa.Call); ok {
			x.guardCheckMap(st, ci.Call.Args[0], true)
		}
		if di, ok := site.(*ssa.Defer); ok {
			x.guardCheckMap(st, di.Call.Args[0], true)
		}
		st.mapDelete(args[0], args[1].T())
		if ret != nil {
			st.set(ret, Val{Typ: ret.Type()})
		}
	case "append":
		s := args[0]
		more := args[1]
		// append(s, elems...) : elems is a slice
		if more.C[0].S == "0" && more.C[1].S == "0" {
			st.set(ret, s)
			return
		}
		// the variadic slice was built just before by the compiler: new [n]T + stores + slice
		vs, ok := x.variadicElems(st, more)
		if !ok {
			// append(s, t...) with an arbitrary slice t: a fresh backing array holding s followed by t
			out := st.sliceConcat(s, more)
			out.Typ = ret.Type()
			st.set(ret, out)
			return
		}
		out := st.sliceAppend(s, vs)
		out.Typ = ret.Type()
		st.set(ret, out)
	case "copy", "print", "println", "recover", "close", "min", "max", "clear":
		if b.Name() == "recover" {
			st.set(ret, zeroVal(ret.Type()))
			return
		}
		if b.Name() == "close" {
			st.addEvent(Event{Kind: "close", Args: args})
			return
		}
		unsupp("builtin %s", b.Name())
	default:
		unsupp("builtin %s", b.Name())
	}
}

// variadicElems recovers the elements of a compiler-built variadic slice (new [n]T; stores; slice).
func (x *Exec) variadicElems(st *State, s Val) ([]Val, bool) {
	if s.arrayLit == nil {
		return nil, false
	}
	var out []Val
	for i := 0; i < s.arrayLit.n; i++ {
		p := Val{Typ: types.NewPointer(s.arrayLit.elem), C: []Term{s.arrayLit.ref}, Prefix: fmt.Sprintf("%s[%d]", s.arrayLit.prefix, i)}
		out = append(out, st.load(p))
	}
	return out, true
}

func hasLoop(fn *ssa.Function) bool {
	for _, b := range fn.Blocks {
		for _, s := range b.Succs {
			if s.Dominates(b) {
				return true
			}
		}
	}
	for _, a := range fn.AnonFuncs {
		_ = a
	}
	return false
}

// bindEmitNames gives every bind(name) of an emits list a fresh symbolic value (typed by the field it binds).
func (x *Exec) bindEmitNames(st *State, env *Env, pats []EventPat) {
	var walk func(e Expr)
	walk = func(e Expr) {
		m, ok := e.(*EMsg)
		if !ok {
			return
		}
		t := env.pkg.resolveType(m.Type)
		stt, _ := t.Underlying().(*types.Struct)
		for _, fi := range m.Fields {
			if bc, ok := fi.X.(*ECall); ok && bc.Fn == "bind" && len(bc.Args) == 1 && stt != nil {
				name := bc.Args[0].(*EIdent).Name
				if _, have := env.vars[name]; have {
					continue
				}
				for i := 0; i < stt.NumFields(); i++ {
					if stt.Field(i).Name() == fi.Name {
						env.vars[name] = st.symbolic(stt.Field(i).Type(), "bound_"+name)
					}
				}
				continue
			}
			walk(fi.X)
		}
	}
	for _, p := range pats {
		for _, a := range p.Args {
			walk(a)
		}
	}
}

package main

import (
	"fmt"
	"go/types"
	"strings"

	"golang.org/x/tools/go/ssa"
)

// builtins are the ASSUMED contracts of functions outside the repository (and of a few
// repository functions that only talk to Prometheus). Every use is recorded in the evidence.
type builtinFn func(x *Exec, st *State, args []Val, site ssa.Instruction) []Val

var builtins map[string]builtinFn

const (
	pkgHWS   = "common/websocket"
	pkgErrs  = "github.com/aukilabs/go-tooling/pkg/errors"
	pkgTSPB  = "pb/types/known/timestamppb"
)

func init() {
	builtins = map[string]builtinFn{
		// ---- sync ----
		"(*sync.Mutex).Lock":      func(x *Exec, st *State, a []Val, s ssa.Instruction) []Val { x.lockOp(st, a[0], "W", true); return nil },
		"(*sync.Mutex).Unlock":    func(x *Exec, st *State, a []Val, s ssa.Instruction) []Val { x.lockOp(st, a[0], "W", false); return nil },
		"(*sync.RWMutex).Lock":    func(x *Exec, st *State, a []Val, s ssa.Instruction) []Val { x.lockOp(st, a[0], "W", true); return nil },
		"(*sync.RWMutex).Unlock":  func(x *Exec, st *State, a []Val, s ssa.Instruction) []Val { x.lockOp(st, a[0], "W", false); return nil },
		"(*sync.RWMutex).RLock":   func(x *Exec, st *State, a []Val, s ssa.Instruction) []Val { x.lockOp(st, a[0], "R", true); return nil },
		"(*sync.RWMutex).RUnlock": func(x *Exec, st *State, a []Val, s ssa.Instruction) []Val { x.lockOp(st, a[0], "R", false); return nil },
		"(*sync.Once).Do":         onceDo,
		"(*sync.WaitGroup).Add":   nop,
		"(*sync.WaitGroup).Done":  nop,
		"(*sync.WaitGroup).Wait": func(x *Exec, st *State, a []Val, s ssa.Instruction) []Val {
			// observable in traces: the order of "wait for the goroutines" against "close what they use" matters
			st.addEvent(Event{Kind: "wg_wait", Args: a})
			return nil
		},
		"(*" + pkgHWS + ".scheduler).Close": func(x *Exec, st *State, a []Val, s ssa.Instruction) []Val {
			st.addEvent(Event{Kind: "scheduler_close", Args: a})
			return nil
		},

		// ---- time ----
		"time.Now": func(x *Exec, st *State, a []Val, s ssa.Instruction) []Val {
			t := st.fresh("now", SInt)
			st.assume(Gt(t, TZero))
			if st.lastNow != nil {
				st.assume(Ge(t, *st.lastNow))
				x.assumeNote("A-clock: time.Now is monotone within one handler call")
			}
			st.lastNow = &t
			return []Val{{Typ: x.eng.timeType, C: []Term{t}}}
		},
		"(time.Time).UnixNano": func(x *Exec, st *State, a []Val, s ssa.Instruction) []Val { return []Val{intVal(a[0].T())} },
		"(time.Time).Sub":      func(x *Exec, st *State, a []Val, s ssa.Instruction) []Val { return []Val{intVal(Sub(a[0].T(), a[1].T()))} },
		"(time.Time).IsZero":   func(x *Exec, st *State, a []Val, s ssa.Instruction) []Val { return []Val{boolVal(Eq(a[0].T(), TZero))} },
		"(time.Time).Before":   func(x *Exec, st *State, a []Val, s ssa.Instruction) []Val { return []Val{boolVal(Lt(a[0].T(), a[1].T()))} },
		"(time.Time).After":    func(x *Exec, st *State, a []Val, s ssa.Instruction) []Val { return []Val{boolVal(Gt(a[0].T(), a[1].T()))} },
		"(time.Duration).Microseconds": func(x *Exec, st *State, a []Val, s ssa.Instruction) []Val {
			return []Val{intVal(x.truncDiv(a[0].T(), IntLit(1000)))}
		},
		"time.NewTicker": func(x *Exec, st *State, a []Val, s ssa.Instruction) []Val {
			st.oblige("safe:ticker:"+x.site("NewTicker"), []string{"C08"}, Gt(a[0].T(), TZero), "time.NewTicker panics on non-positive duration")
			st.assume(Gt(a[0].T(), TZero))
			return []Val{st.allocOpaque(x.eng.lookupType("time", "Ticker"), "ticker")}
		},
		"time.NewTimer": func(x *Exec, st *State, a []Val, s ssa.Instruction) []Val {
			return []Val{st.allocOpaque(x.eng.lookupType("time", "Timer"), "timer")}
		},
		"(*time.Ticker).Stop": nop,
		"(*time.Timer).Stop":  func(x *Exec, st *State, a []Val, s ssa.Instruction) []Val { return []Val{boolVal(st.fresh("stopped", SBool))} },
		"(*time.Timer).Reset": func(x *Exec, st *State, a []Val, s ssa.Instruction) []Val {
			st.addEvent(Event{Kind: "timer_reset", Args: a})
			return []Val{boolVal(st.fresh("reset", SBool))}
		},

		// ---- timestamppb ----
		pkgTSPB + ".Now": func(x *Exec, st *State, a []Val, s ssa.Instruction) []Val {
			t := x.eng.lookupType("google.golang.org/protobuf/types/known/timestamppb", "Timestamp")
			p := st.allocObj(t, "ts")
			// arbitrary but valid contents
			secs := st.fresh("secs", SInt)
			nanos := st.fresh("nanos", SInt)
			st.assume(And(Ge(nanos, TZero), Lt(nanos, IntLit(1000000000))))
			st.store(Val{Typ: types.NewPointer(types.Typ[types.Int64]), C: p.C, Prefix: p.prefix() + ".Seconds"}, intVal(secs))
			st.store(Val{Typ: types.NewPointer(types.Typ[types.Int32]), C: p.C, Prefix: p.prefix() + ".Nanos"}, intVal(nanos))
			return []Val{p}
		},
		"(*" + pkgTSPB + ".Timestamp).AsTime": func(x *Exec, st *State, a []Val, s ssa.Instruction) []Val {
			p := a[0]
			secs := st.load(Val{Typ: types.NewPointer(types.Typ[types.Int64]), C: p.C, Prefix: p.prefix() + ".Seconds"}).T()
			nanos := st.load(Val{Typ: types.NewPointer(types.Typ[types.Int32]), C: p.C, Prefix: p.prefix() + ".Nanos"}).T()
			x.assumeNote("A-astime: Timestamp.AsTime() is seconds*1e9+nanos (holds away from the int64 extremes of seconds)")
			t := Ite(Eq(p.T(), TZero), TZero, Add(app(SInt, "*", secs, IntLit(1000000000)), nanos))
			return []Val{{Typ: x.eng.timeType, C: []Term{t}}}
		},

		// ---- go-tooling errors ----
		pkgErrs + ".New":  errNew,
		pkgErrs + ".Newf": errNew,
		"(" + pkgErrs + ".Error).WithType": func(x *Exec, st *State, a []Val, s ssa.Instruction) []Val {
			e := x.newErr(st, a[0].Typ)
			t := a[1].T()
			st.assume(Eq(x.errDef(e.T()), t))
			st.assume(Eq(x.errWrap(e.T()), x.errWrap(a[0].T())))
			st.assume(Eq(x.errType(e.T()), Ite(Neq(t, TZero), t, x.errType(a[0].T()))))
			return []Val{e}
		},
		"(" + pkgErrs + ".Error).WithTag": func(x *Exec, st *State, a []Val, s ssa.Instruction) []Val {
			e := x.newErr(st, a[0].Typ)
			st.assume(Eq(x.errDef(e.T()), x.errDef(a[0].T())))
			st.assume(Eq(x.errWrap(e.T()), x.errWrap(a[0].T())))
			st.assume(Eq(x.errType(e.T()), x.errType(a[0].T())))
			return []Val{e}
		},
		"(" + pkgErrs + ".Error).Wrap": func(x *Exec, st *State, a []Val, s ssa.Instruction) []Val {
			e := x.newErr(st, a[0].Typ)
			st.assume(Eq(x.errDef(e.T()), x.errDef(a[0].T())))
			st.assume(Eq(x.errWrap(e.T()), a[1].T()))
			rich := x.strLit("errors.richError")
			st.assume(Eq(x.errType(e.T()), Ite(Neq(x.errDef(a[0].T()), TZero), x.errDef(a[0].T()), Ite(Neq(a[1].T(), TZero), x.errType(a[1].T()), rich))))
			return []Val{e}
		},
		pkgErrs + ".Type": func(x *Exec, st *State, a []Val, s ssa.Instruction) []Val {
			return []Val{{Typ: types.Typ[types.String], C: []Term{Ite(Eq(a[0].T(), TZero), TZero, x.errType(a[0].T()))}}}
		},
		pkgErrs + ".IsType": func(x *Exec, st *State, a []Val, s ssa.Instruction) []Val {
			return []Val{boolVal(x.errIsType(a[0].T(), a[1].T()))}
		},

		// ---- hagall-common websocket ----
		"(" + pkgHWS + ".Msg).DataTo":          dataTo,
		pkgHWS + ".MsgFromProto":               msgFromProto,
		"(" + pkgHWS + ".ResponseSender).Send": func(x *Exec, st *State, a []Val, s ssa.Instruction) []Val {
			x.countDelivery(st, a[0], a[1].T(), s)
			st.addEvent(Event{Kind: "send", Args: a})
			return nil
		},
		"(" + pkgHWS + ".ResponseSender).SendMsg": func(x *Exec, st *State, a []Val, s ssa.Instruction) []Val {
			// a[1] is a Msg; count deliveries per (recipient, source proto message)
			x.countDelivery(st, a[0], msgSrc(a[1]), s)
			st.addEvent(Event{Kind: "sendmsg", Args: a})
			return nil
		},
		"(pb/reflect/protoreflect.Enum).Number": func(x *Exec, st *State, a []Val, s ssa.Instruction) []Val {
			n := x.uf("enumnum", []Sort{SInt}, SInt, a[0].T())
			st.assume(And(Ge(n, Term{"(- 2147483648)", SInt}), Le(n, Term{"2147483647", SInt})))
			return []Val{{Typ: x.eng.lookupType("google.golang.org/protobuf/reflect/protoreflect", "EnumNumber"), C: []Term{n}}}
		},

		"(models.SessionDiscoveryService).ServerID": func(x *Exec, st *State, a []Val, s ssa.Instruction) []Val {
			x.assumeNote("A-serverid: SessionDiscoveryService.ServerID() is a pure function of the service value")
			r := x.uf("serverid", []Sort{SInt}, SInt, a[0].T())
			st.assume(Ge(r, TZero))
			return []Val{{Typ: types.Typ[types.String], C: []Term{r}}}
		},

		// ---- math (A-real: over the reals) ----
		"math.Floor": func(x *Exec, st *State, a []Val, s ssa.Instruction) []Val {
			return []Val{{Typ: types.Typ[types.Float64], C: []Term{app(SReal, "to_real", app(SInt, "to_int", a[0].T()))}}}
		},
		"math.Ceil": func(x *Exec, st *State, a []Val, s ssa.Instruction) []Val {
			t := a[0].T()
			return []Val{{Typ: types.Typ[types.Float64], C: []Term{app(SReal, "-", app(SReal, "to_real", app(SInt, "to_int", app(SReal, "-", t))))}}}
		},
		"math.Round": func(x *Exec, st *State, a []Val, s ssa.Instruction) []Val {
			x.assumeNote("A-real: math.Round modelled as floor(x+0.5) over the reals")
			return []Val{{Typ: types.Typ[types.Float64], C: []Term{app(SReal, "to_real", app(SInt, "to_int", app(SReal, "+", a[0].T(), RealLit("0.5"))))}}}
		},
		"math.Max": func(x *Exec, st *State, a []Val, s ssa.Instruction) []Val {
			return []Val{{Typ: types.Typ[types.Float64], C: []Term{Ite(Ge(a[0].T(), a[1].T()), a[0].T(), a[1].T())}}}
		},
		"math.Min": func(x *Exec, st *State, a []Val, s ssa.Instruction) []Val {
			return []Val{{Typ: types.Typ[types.Float64], C: []Term{Ite(Le(a[0].T(), a[1].T()), a[0].T(), a[1].T())}}}
		},
		"math.Abs": func(x *Exec, st *State, a []Val, s ssa.Instruction) []Val {
			return []Val{{Typ: types.Typ[types.Float64], C: []Term{Ite(Ge(a[0].T(), RealLit("0.0")), a[0].T(), app(SReal, "-", a[0].T()))}}}
		},
		"math.Sqrt": func(x *Exec, st *State, a []Val, s ssa.Instruction) []Val {
			r := x.uf("fsqrt", []Sort{SReal}, SReal, a[0].T())
			st.assume(Ge(r, RealLit("0.0")))
			return []Val{{Typ: types.Typ[types.Float64], C: []Term{r}}}
		},

		// ---- protobuf / crypto (uninterpreted; byte slices are identified by their backing array) ----
		"pb/proto.Marshal": func(x *Exec, st *State, a []Val, s ssa.Instruction) []Val {
			x.assumeNote("A-crypto: proto.Marshal, Keccak256, Sign, Ecrecover, hexutil.Encode and bytes.Equal are uninterpreted functions of their arguments; byte slices are identified by their backing array (never mutated after creation)")
			r := st.freshRef("marshaled")
			src := a[0].T()
			if a[0].Inner != nil && len(a[0].Inner.C) == 1 {
				src = a[0].Inner.T() // the message pointer, not its interface box
			}
			st.assume(Eq(x.uf("srcmsg", []Sort{SInt}, SInt, r), src))
			l := st.fresh("mlen", SInt)
			st.assume(Ge(l, TZero))
			e := st.symbolic(x.eng.errorType, "marshalerr")
			return []Val{{Typ: types.NewSlice(types.Typ[types.Byte]), C: []Term{r, l}}, e}
		},
		"github.com/ethereum/go-ethereum/crypto.Keccak256Hash": func(x *Exec, st *State, a []Val, s ssa.Instruction) []Val {
			vs, ok := x.variadicElems(st, a[0])
			if !ok || len(vs) != 1 {
				unsupp("Keccak256Hash with other than one literal argument")
			}
			h := x.uf("keccak", []Sort{SInt}, SInt, vs[0].C[0])
			return []Val{{Typ: x.eng.lookupType("github.com/ethereum/go-ethereum/common", "Hash"), C: []Term{h}}}
		},
		"(github.com/ethereum/go-ethereum/common.Hash).Bytes": func(x *Exec, st *State, a []Val, s ssa.Instruction) []Val {
			b := x.uf("hashbytes", []Sort{SInt}, SInt, a[0].T())
			st.assume(Gt(b, TZero))
			return []Val{{Typ: types.NewSlice(types.Typ[types.Byte]), C: []Term{b, IntLit(32)}}}
		},
		"github.com/ethereum/go-ethereum/crypto.Sign": func(x *Exec, st *State, a []Val, s ssa.Instruction) []Val {
			sig := x.uf("sign", []Sort{SInt, SInt}, SInt, a[0].C[0], a[1].T())
			st.assume(Ge(sig, TZero))
			e := st.symbolic(x.eng.errorType, "signerr")
			return []Val{{Typ: types.NewSlice(types.Typ[types.Byte]), C: []Term{sig, IntLit(65)}}, e}
		},
		"github.com/ethereum/go-ethereum/crypto.Ecrecover": func(x *Exec, st *State, a []Val, s ssa.Instruction) []Val {
			ok := x.uf("ecrecover_ok", []Sort{SInt, SInt}, SBool, a[0].C[0], a[1].C[0])
			e := st.symbolic(x.eng.errorType, "ecerr")
			st.assume(Eq(Eq(e.T(), TZero), ok))
			return []Val{st.symbolic(types.NewSlice(types.Typ[types.Byte]), "pubkey"), e}
		},
		"github.com/ethereum/go-ethereum/common/hexutil.Encode": func(x *Exec, st *State, a []Val, s ssa.Instruction) []Val {
			r := x.uf("hexenc", []Sort{SInt}, SInt, a[0].C[0])
			st.assume(Ge(r, TZero))
			return []Val{{Typ: types.Typ[types.String], C: []Term{r}}}
		},
		"bytes.Equal": func(x *Exec, st *State, a []Val, s ssa.Instruction) []Val {
			return []Val{boolVal(x.uf("bytes_eq", []Sort{SInt, SInt}, SBool, a[0].C[0], a[1].C[0]))}
		},
		"sort.Slice": sortSlice,

		// ---- authentication / HTTP (C15) and credit service (C19): abstract events and uninterpreted predicates ----
		"common/http.GetUserTokenFromHTTPRequest": func(x *Exec, st *State, a []Val, s ssa.Instruction) []Val {
			x.assumeNote("A-token: GetUserTokenFromHTTPRequest (header, query string or cookie) is a pure function of the request; VerifyUserAuth(token) is a predicate of the token and the client's current secret (hagall-common and golang-jwt are assumed, not verified)")
			r := x.uf("usertoken", []Sort{SInt}, SInt, a[0].T())
			st.assume(Ge(r, TZero))
			return []Val{{Typ: types.Typ[types.String], C: []Term{r}}}
		},
		"(*common/hdsclient.Client).VerifyUserAuth": func(x *Exec, st *State, a []Val, s ssa.Instruction) []Val {
			ok := x.uf("authok", []Sort{SInt, SInt}, SBool, a[0].T(), a[1].T())
			e := st.symbolic(x.eng.errorType, "autherr")
			st.assume(Eq(Eq(e.T(), TZero), ok))
			return []Val{e}
		},
		"(net/http.ResponseWriter).WriteHeader": func(x *Exec, st *State, a []Val, s ssa.Instruction) []Val {
			st.addEvent(Event{Kind: "WriteHeader", Args: a})
			return nil
		},
		"(net/http.HandlerFunc).ServeHTTP": func(x *Exec, st *State, a []Val, s ssa.Instruction) []Val {
			st.addEvent(Event{Kind: "ServeHTTP", Args: a})
			return nil
		},
		"(*common/ncsclient.NCSClient).PostReceipt": func(x *Exec, st *State, a []Val, s ssa.Instruction) []Val {
			st.addEvent(Event{Kind: "PostReceipt", Args: a})
			return []Val{st.symbolic(x.eng.errorType, "posterr")}
		},

		// ---- Prometheus gauges (C08: the connected-clients gauge returns to its previous value) ----
		"(*github.com/prometheus/client_golang/prometheus.GaugeVec).With": func(x *Exec, st *State, a []Val, s ssa.Instruction) []Val {
			labels := a[1]
			ep := st.mapGetRaw(labels, x.strLit("public_endpoint")).T()
			ak := st.mapGetRaw(labels, x.strLit("app_key")).T()
			child := x.uf("gaugechild", []Sort{SInt, SInt}, SInt, ep, ak)
			st.assume(Gt(child, TZero))
			x.assumeNote("A-gauge: GaugeVec.With(labels) denotes one gauge per (public_endpoint, app_key) label pair")
			return []Val{{Typ: x.eng.lookupType("github.com/prometheus/client_golang/prometheus", "Gauge"), C: []Term{child}}}
		},
		"(github.com/prometheus/client_golang/prometheus.Gauge).Inc": func(x *Exec, st *State, a []Val, s ssa.Instruction) []Val {
			st.addEvent(Event{Kind: "GaugeInc", Args: a})
			return nil
		},
		"(github.com/prometheus/client_golang/prometheus.Gauge).Dec": func(x *Exec, st *State, a []Val, s ssa.Instruction) []Val {
			st.addEvent(Event{Kind: "GaugeDec", Args: a})
			return nil
		},

		// ---- misc ----
		"(github.com/google/uuid.UUID).String": func(x *Exec, st *State, a []Val, s ssa.Instruction) []Val {
			return []Val{st.symbolic(types.Typ[types.String], "uuidstr")}
		},
		"github.com/google/uuid.New": func(x *Exec, st *State, a []Val, s ssa.Instruction) []Val {
			x.assumeNote("A-uuid: uuid.New returns an arbitrary value (freshness of UUIDs is not modelled)")
			return []Val{st.symbolic(x.eng.lookupType("github.com/google/uuid", "UUID"), "uuid")}
		},
		"fmt.Sprintf": func(x *Exec, st *State, a []Val, s ssa.Instruction) []Val {
			// uninterpreted in the format string and the boxed arguments
			vs, ok := x.variadicElems(st, a[1])
			if !ok {
				return []Val{st.symbolic(types.Typ[types.String], "sprintf")}
			}
			sorts := []Sort{SInt}
			ts := []Term{a[0].T()}
			for _, v := range vs {
				sorts = append(sorts, SInt)
				ts = append(ts, v.T())
			}
			r := x.uf(fmt.Sprintf("sprintf%d", len(vs)), sorts, SInt, ts...)
			st.assume(Ge(r, TZero))
			return []Val{{Typ: types.Typ[types.String], C: []Term{r}}}
		},
		"context.Background": func(x *Exec, st *State, a []Val, s ssa.Instruction) []Val {
			v := st.symbolic(x.eng.lookupType("context", "Context"), "ctx")
			st.assume(Neq(v.T(), TZero))
			return []Val{v}
		},
		"context.WithCancel": func(x *Exec, st *State, a []Val, s ssa.Instruction) []Val {
			x.assumeNote("A-shutdown: the parent context of a connection is not cancelled (server shutdown is outside C06/C08): a derived context is cancelled only by its own CancelFunc")
			ctx := st.symbolic(x.eng.lookupType("context", "Context"), "ctx")
			st.assume(Neq(ctx.T(), TZero))
			arr := st.heapGet("ghost.ctxcancelled", ArrSort(SBool))
			st.heapSetAt("ghost.ctxcancelled", Store(arr, ctx.T(), TFalse), nil)
			r := st.freshRef("cancelfn")
			cf := Val{Typ: x.eng.lookupType("context", "CancelFunc"), C: []Term{r}, Fn: &Closure{Builtin: "cancel", Bindings: []Val{ctx}}}
			return []Val{ctx, cf}
		},
		"(context.Context).Done": func(x *Exec, st *State, a []Val, s ssa.Instruction) []Val {
			c := x.uf("donechan", []Sort{SInt}, SInt, a[0].T())
			st.assume(Gt(c, TZero))
			return []Val{{Typ: types.NewChan(types.RecvOnly, types.NewStruct(nil, nil)), C: []Term{c}}}
		},
		"(context.Context).Err": func(x *Exec, st *State, a []Val, s ssa.Instruction) []Val {
			arr := st.heapGet("ghost.ctxcancelled", ArrSort(SBool))
			e := st.symbolic(x.eng.errorType, "ctxerr")
			st.assume(Eq(Neq(e.T(), TZero), Select(arr, a[0].T())))
			return []Val{e}
		},

		// ---- repository functions that only talk to Prometheus: modelled as ghost gauges ----
		"models.instrumentIncreaseSessionGauge": func(x *Exec, st *State, a []Val, s ssa.Instruction) []Val { gauge(st, "sessions", a[0].T(), 1); return nil },
		"models.instrumentDecreaseSessionGauge": func(x *Exec, st *State, a []Val, s ssa.Instruction) []Val { gauge(st, "sessions", a[0].T(), -1); return nil },
		"models.instrumentCountSession":         nop,
	}
}

func nop(x *Exec, st *State, a []Val, s ssa.Instruction) []Val { return nil }

func gauge(st *State, name string, label Term, d int64) {
	arr := st.heapGet("ghost.gauge."+name, ArrSort(SInt))
	st.heapSet("ghost.gauge."+name, Store(arr, label, Add(Select(arr, label), IntLit(d))))
	tot := st.heapGet("ghost.gaugetotal."+name, ArrSort(SInt))
	st.heapSet("ghost.gaugetotal."+name, Store(tot, TZero, Add(Select(tot, TZero), IntLit(d))))
}

func (st *State) allocOpaque(t types.Type, hint string) Val {
	r := st.freshRef(hint)
	return Val{Typ: types.NewPointer(t), C: []Term{r}}
}

// ---- errors ----

func (x *Exec) errType(e Term) Term { return x.uf("errtype", []Sort{SInt}, SInt, e) }
func (x *Exec) errDef(e Term) Term  { return x.uf("errdef", []Sort{SInt}, SInt, e) }
func (x *Exec) errWrap(e Term) Term { return x.uf("errwrap", []Sort{SInt}, SInt, e) }
func (x *Exec) errIsType(e, t Term) Term {
	deep := x.uf("istype_deep", []Sort{SInt, SInt}, SBool, x.errWrap(e), t)
	return And(Neq(e, TZero), Or(Eq(t, x.errType(e)), And(Neq(x.errWrap(e), TZero), deep)))
}

func (x *Exec) newErr(st *State, t types.Type) Val {
	e := st.fresh("err", SInt)
	st.assume(Gt(e, TZero))
	return Val{Typ: t, C: []Term{e}}
}

func errNew(x *Exec, st *State, a []Val, s ssa.Instruction) []Val {
	t := x.eng.lookupType(pkgErrs, "Error")
	e := x.newErr(st, t)
	st.assume(Eq(x.errDef(e.T()), TZero))
	st.assume(Eq(x.errWrap(e.T()), TZero))
	st.assume(Eq(x.errType(e.T()), x.strLit("errors.richError")))
	return []Val{e}
}

// ---- sync.Once ----

func onceDo(x *Exec, st *State, a []Val, s ssa.Instruction) []Val {
	p := a[0]
	name := "once:" + p.prefix()
	arr := st.heapGet(name, ArrSort(SBool))
	done := Select(arr, p.T())
	f := a[1]
	// already done: nothing happens
	skip := st.clone()
	skip.assume(done)
	if ci, ok := s.(*ssa.Call); ok {
		skip.set(ci, Val{Typ: ci.Type()})
	}
	x.pushWork(skip)
	st.assume(Not(done))
	st.heapSet(name, Store(arr, p.T(), TTrue))
	if ci, ok := s.(*ssa.Call); ok {
		st.set(ci, Val{Typ: ci.Type()})
	}
	if f.Fn == nil {
		st.addEvent(Event{Kind: "callfn", Args: []Val{f}})
		return nil
	}
	if sp := x.eng.funcSpecs[funcKey(f.Fn.Fn)]; sp != nil && sp.HasMod {
		// the body has its own contract (it is verified on its own, as a once_body): use it here
		x.pendingClosure = f.Fn
		x.applyContract(st, sp, f.Fn.Fn, nil, nil, s)
		x.pendingClosure = nil
		return nil
	}
	// writes performed inside Once.Do happen-before every later Do return: treat as synchronised
	hl := HeldLock{Field: "once:" + p.prefix(), Ref: p.T(), Mode: "W"}
	st.held = append(st.held, hl)
	x.dispatchClosure(st, f.Fn, nil)
	st.top().cont = func(s2 *State, _ []Val) {
		for i := len(s2.held) - 1; i >= 0; i-- {
			if s2.held[i].Field == hl.Field && s2.held[i].Ref.S == hl.Ref.S {
				s2.held = append(s2.held[:i], s2.held[i+1:]...)
				break
			}
		}
	}
	return nil
}

// ---- locks ----

func (x *Exec) lockOp(st *State, p Val, mode string, acquire bool) {
	field := p.prefix()
	if acquire {
		x.checkLockOrder(st, field, p.T(), mode)
		x.checkAtomic(st, field, p.T())
		st.held = append(st.held, HeldLock{Field: field, Ref: p.T(), Mode: mode})
		return
	}
	for i := len(st.held) - 1; i >= 0; i-- {
		h := st.held[i]
		if h.Field == field && h.Ref.S == p.T().S && h.Mode == mode {
			st.held = append(st.held[:i], st.held[i+1:]...)
			if st.released == nil {
				st.released = map[string]bool{}
			}
			st.released[field+"@"+p.T().S] = true
			return
		}
	}
	st.obligeStaticFail("lock:unlock-not-held:"+x.site(field), []string{"C09"}, "unlock of "+field+" ("+mode+") which is not held on this path")
}

// ---- websocket Msg ----

func msgSrc(m Val) Term {
	cs := comps(m.Typ)
	for i, c := range cs {
		if c.Suffix == ".body#a" {
			return m.C[i]
		}
	}
	panic("msgSrc: not a Msg")
}

func msgFromProto(x *Exec, st *State, a []Val, s ssa.Instruction) []Val {
	// Msg{Type: type enum of v, Time: v.Timestamp.AsTime(), body: Marshal(v)}
	// The body's backing reference is identified with the proto message itself (ghost):
	// a Msg built from proto message v has body#a = marshal(v).
	v := a[0]
	mt := x.eng.lookupType("github.com/aukilabs/hagall-common/websocket", "Msg")
	out := Val{Typ: mt}
	ok := x.uf("marshal_ok", []Sort{SInt}, SBool, v.T())
	for _, c := range comps(mt) {
		switch c.Suffix {
		case ".Type":
			out.C = append(out.C, x.uf("msgtypeof", []Sort{SInt}, SInt, v.T()))
		case ".Time":
			out.C = append(out.C, st.fresh("msgtime", SInt))
		case ".body#a":
			out.C = append(out.C, v.T())
		case ".body#l":
			l := st.fresh("bodylen", SInt)
			st.assume(Ge(l, TZero))
			out.C = append(out.C, l)
		default:
			panic("unexpected Msg component " + c.Suffix)
		}
	}
	e := st.symbolic(x.eng.errorType, "marshalerr")
	st.assume(Eq(Eq(e.T(), TZero), ok))
	x.assumeNote("A-marshal: MsgFromProto fails only when marshal_ok(message) is false; the resulting Msg is identified with its source message")
	return []Val{out, e}
}

func dataTo(x *Exec, st *State, a []Val, s ssa.Instruction) []Val {
	msg, v := a[0], a[1]
	if v.Dyn == nil || v.Inner == nil {
		unsupp("DataTo with a target of unknown dynamic type")
	}
	body := msgBody(msg)
	target := *v.Inner
	elem := ptrElem(target.Typ)
	x.fillDecoded(st, target, body, typeName(elem), "", elem, 0)
	ok := x.uf("decode_ok", []Sort{SInt}, SBool, body)
	e := st.symbolic(x.eng.errorType, "decerr")
	st.assume(Eq(Eq(e.T(), TZero), ok))
	x.assumeNote("A-decode: Msg.DataTo is a deterministic function of the message body; on success every scalar field is arbitrary, every sub-message pointer is nil or a fresh object, repeated message elements are non-nil")
	return []Val{e}
}

// fillDecoded stores decoded field values into the struct at ptr.
func (x *Exec) fillDecoded(st *State, ptr Val, body Term, root, path string, t types.Type, depth int) {
	stt, ok := t.Underlying().(*types.Struct)
	if !ok {
		unsupp("DataTo into non-struct %s", typeName(t))
	}
	if depth > 4 {
		unsupp("decoded message nesting too deep at %s%s", root, path)
	}
	for i := 0; i < stt.NumFields(); i++ {
		f := stt.Field(i)
		ft := f.Type()
		if len(comps(ft)) == 0 || isProtoPlumbing(f) {
			continue
		}
		fpath := path + "." + f.Name()
		fp := Val{Typ: types.NewPointer(ft), C: ptr.C, Prefix: ptr.prefix() + "." + f.Name(), Idx: ptr.Idx}
		switch u := types.Unalias(ft).Underlying().(type) {
		case *types.Pointer:
			if _, isStruct := u.Elem().Underlying().(*types.Struct); isStruct {
				ref := x.uf("decref:"+root+fpath, []Sort{SInt}, SInt, body)
				obj := st.allocObj(u.Elem(), "dec")
				st.assume(Or(Eq(ref, TZero), Eq(ref, obj.T())))
				x.fillDecoded(st, obj, body, root, fpath, u.Elem(), depth+1)
				st.store(fp, Val{Typ: ft, C: []Term{ref}})
				continue
			}
			unsupp("decoded pointer field %s", fpath)
		case *types.Slice:
			a := x.uf("dec:"+root+fpath+"#a", []Sort{SInt}, SInt, body)
			l := x.uf("dec:"+root+fpath+"#l", []Sort{SInt}, SInt, body)
			r := st.freshRef("decslice")
			st.assume(Or(Eq(a, TZero), Eq(a, r)))
			st.assume(Ge(l, TZero))
			st.assume(Implies(Eq(a, TZero), Eq(l, TZero)))
			st.assume(Le(l, Term{"4294967296", SInt}))
			ecs := comps(u.Elem())
			if len(ecs) == 1 {
				elems := x.uf("decelems:"+root+fpath, []Sort{SInt}, ArrSort(ecs[0].Sort), body)
				name := elemPrefix(u.Elem()) + ecs[0].Suffix
				arr := st.heapGet(name, ArrSort(ArrSort(ecs[0].Sort)))
				st.heapSet(name, Store(arr, r, elems))
				j := Term{"j!d", SInt}
				if _, isPtr := types.Unalias(u.Elem()).Underlying().(*types.Pointer); isPtr {
					// repeated sub-messages: elements are non-nil fresh objects
					na := st.fresh("alloc", SInt)
					st.assume(Ge(na, st.alloc))
					st.assume(Forall([]Term{j}, Implies(And(Ge(j, TZero), Lt(j, l)), And(Gt(Select(elems, j), st.alloc), Le(Select(elems, j), na)))))
					st.alloc = na
				} else if tc := typeConstraint(u.Elem(), []Term{Select(elems, j)}); tc.S != "true" {
					st.assume(Forall([]Term{j}, tc))
				}
			} else {
				unsupp("decoded slice of multi-component elements %s", fpath)
			}
			st.store(fp, Val{Typ: ft, C: []Term{a, l}})
		case *types.Map, *types.Interface:
			st.store(fp, st.symbolic(ft, "decany"))
		default:
			v := Val{Typ: ft}
			for _, c := range comps(ft) {
				v.C = append(v.C, x.uf("dec:"+root+fpath+c.Suffix, []Sort{SInt}, c.Sort, body))
			}
			st.assume(typeConstraint(ft, v.C))
			st.store(fp, v)
		}
	}
}

func keyHasPrefix(key string, ps ...string) bool {
	for _, p := range ps {
		if strings.HasPrefix(key, p) {
			return true
		}
	}
	return false
}

// countDelivery increments the ghost delivery counter. When the responder was loaded from the
// Responder field of a Participant object the counter is keyed by that participant
// (ghost.delivered[participant][message]); otherwise by the responder value (ghost.sent).
func (x *Exec) countDelivery(st *State, responder Val, src Term, site ssa.Instruction) {
	name, key := "ghost.sent", responder.T()
	if ci, ok := site.(ssa.CallInstruction); ok && ci.Common().IsInvoke() {
		if obj, fa, ok := traceField(ci.Common().Value, 0); ok && fieldName(fa) == "Responder" && typeName(ptrElem(fa.X.Type())) == "models.Participant" {
			if ov, have := st.top().locals[obj]; have {
				name, key = "ghost.delivered", ov.T()
			}
		}
	}
	arr := st.heapGet(name, ArrSort(ArrSort(SInt)))
	inner := Select(arr, key)
	st.heapSetAt(name, Store(arr, key, Store(inner, src, Add(Select(inner, src), IntLit(1)))), &key)
}

// sortSlice models sort.Slice(x, less) for the one shape used in the repository
// (less = func(i, j) bool { return x[i] < x[j] }): the elements are permuted into ascending order.
func sortSlice(x *Exec, st *State, a []Val, s ssa.Instruction) []Val {
	sl := a[0]
	if sl.Inner == nil {
		unsupp("sort.Slice on a value of unknown dynamic type")
	}
	v := *sl.Inner
	elem := sliceElem(v.Typ)
	cs := comps(elem)
	if len(cs) != 1 || !isAscendingLess(a[1]) {
		unsupp("sort.Slice with a less function other than x[i] < x[j]")
	}
	x.assumeNote("A-sort: sort.Slice(x, func(i,j){return x[i] < x[j]}) permutes x into ascending order")
	name := elemPrefix(elem) + cs[0].Suffix
	arr := st.heapGet(name, ArrSort(ArrSort(cs[0].Sort)))
	old := Select(arr, v.C[0])
	neu := st.fresh("sorted", ArrSort(cs[0].Sort))
	n := v.C[1]
	perm := x.decls.Fun(fmt.Sprintf("perm!%d", x.nfresh), []Sort{SInt}, SInt)
	inv := x.decls.Fun(fmt.Sprintf("perminv!%d", x.nfresh), []Sort{SInt}, SInt)
	i, j := Term{"i!s", SInt}, Term{"j!s", SInt}
	inR := func(t Term) Term { return And(Ge(t, TZero), Lt(t, n)) }
	st.assume(Forall([]Term{i}, Implies(inR(i), And(inR(app(SInt, perm, i)), Eq(Select(neu, i), Select(old, app(SInt, perm, i)))))))
	st.assume(Forall([]Term{j}, Implies(inR(j), And(inR(app(SInt, inv, j)), Eq(Select(neu, app(SInt, inv, j)), Select(old, j))))))
	st.assume(Forall([]Term{i, j}, Implies(And(inR(i), inR(j), Le(i, j)), Le(Select(neu, i), Select(neu, j)))))
	r := v.C[0]
	st.heapSetAt(name, Store(arr, v.C[0], neu), &r)
	return nil
}

func isAscendingLess(f Val) bool {
	if f.Fn == nil || len(f.Fn.Fn.Blocks) != 1 {
		return false
	}
	var cmp *ssa.BinOp
	for _, in := range f.Fn.Fn.Blocks[0].Instrs {
		if b, ok := in.(*ssa.BinOp); ok {
			if cmp != nil {
				return false
			}
			cmp = b
		}
	}
	return cmp != nil && cmp.Op.String() == "<"
}

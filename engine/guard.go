package main

import (
	"fmt"
	"go/token"
	"strings"

	"golang.org/x/tools/go/ssa"
)

// ---------- lock discipline (C09) ----------

func isFreshTerm(t Term) bool { return strings.HasPrefix(t.S, "new_") }

// guardCheck: an access through pointer p (a field location) respects guarded_by declarations.
func (x *Exec) guardCheck(st *State, p Val, write bool) {
	if st.dryWrites != nil {
		return
	}
	field := p.prefix()
	x.guardCheckField(st, field, p.T(), write)
}

func (x *Exec) guardCheckField(st *State, field string, ref Term, write bool) {
	mutex, ok := x.eng.guards[field]
	if !ok {
		return
	}
	if isFreshTerm(ref) {
		return // object under construction, not yet published
	}
	kind := "read"
	if write {
		kind = "write"
	}
	name := fmt.Sprintf("guard:%s:%s", field, kind)
	var eqs []Term
	for _, h := range st.held {
		if h.Field != mutex {
			continue
		}
		if write && h.Mode != "W" {
			continue
		}
		if h.Ref.S == ref.S {
			st.obls = append(st.obls, Obl{Name: name, Tags: []string{"C09"}, Goal: TTrue, PCLen: len(st.pc), Static: "ok", Desc: field + " accessed with " + mutex + " held"})
			return
		}
		eqs = append(eqs, Eq(h.Ref, ref))
	}
	if len(eqs) == 0 {
		st.obligeStaticFail(name, []string{"C09"}, fmt.Sprintf("%s of %s without holding %s%s", kind, field, mutex, map[bool]string{true: " for writing", false: ""}[write]))
		return
	}
	st.oblige(name, []string{"C09"}, Or(eqs...), field+" accessed with "+mutex+" of the same object held")
}

// traceField finds the struct field a map value was loaded from.
func traceField(v ssa.Value, depth int) (obj ssa.Value, fa *ssa.FieldAddr, ok bool) {
	if depth > 6 {
		return nil, nil, false
	}
	switch n := v.(type) {
	case *ssa.UnOp:
		if n.Op == token.MUL {
			if f, isFA := n.X.(*ssa.FieldAddr); isFA {
				return f.X, f, true
			}
		}
	case *ssa.Extract:
		return traceField(n.Tuple, depth+1)
	case *ssa.Lookup:
		return traceField(n.X, depth+1)
	case *ssa.Next:
		if r, isR := n.Iter.(*ssa.Range); isR {
			return traceField(r.X, depth+1)
		}
	case *ssa.ChangeType:
		return traceField(n.X, depth+1)
	}
	return nil, nil, false
}

// guardCheckMap: map contents are protected by the guard of the field the map hangs off.
func (x *Exec) guardCheckMap(st *State, m ssa.Value, write bool) {
	if st.dryWrites != nil {
		return
	}
	obj, fa, ok := traceField(m, 0)
	if !ok {
		return
	}
	fr := st.top()
	ov, have := fr.locals[obj]
	if !have {
		return
	}
	stt := ptrElem(obj.Type()).Underlying()
	_ = stt
	p := Val{Typ: fa.Type(), C: []Term{ov.T()}, Prefix: ov.prefix() + "." + fieldName(fa)}
	x.guardCheckField(st, p.prefix(), ov.T(), write)
}

func fieldName(fa *ssa.FieldAddr) string {
	return structOf(ptrElem(fa.X.Type())).Field(fa.Field).Name()
}

func (x *Exec) checkLockOrder(st *State, field string, ref Term, mode string) {
	if st.dryWrites != nil {
		return
	}
	lvl, ok := x.eng.lockLevels[field]
	if !ok {
		return
	}
	name := "order:" + field
	for _, h := range st.held {
		hl, hok := x.eng.lockLevels[h.Field]
		if !hok {
			continue
		}
		if hl >= lvl {
			st.obligeStaticFail(name, []string{"C09"}, fmt.Sprintf("acquires %s (level %d) while holding %s (level %d)", field, lvl, h.Field, hl))
			return
		}
	}
	st.obls = append(st.obls, Obl{Name: name, Tags: []string{"C09"}, Goal: TTrue, PCLen: len(st.pc), Static: "ok", Desc: "lock acquired in level order"})
}

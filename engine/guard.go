package main

import (
	"fmt"
	"go/token"
	"go/types"
	"strings"

	"golang.org/x/tools/go/ssa"
)

// ---------- lock discipline (C09) ----------

func isFreshTerm(t Term) bool { return strings.HasPrefix(t.S, "new_") }

// guardCheck: an access through pointer p (a field location) respects guarded_by declarations.
func (x *Exec) guardCheck(st *State, p Val, write bool) {
	if st.dryWrites != nil {
		return
	}
	field := p.prefix()
	x.guardCheckField(st, field, p.T(), write, true)
}

// direct: the field itself is accessed (a store replaces its value); false for accesses to the contents
// of the map the field holds, which immutable declarations do not restrict.
func (x *Exec) guardCheckField(st *State, field string, ref Term, write bool, direct bool) {
	if ws, ok := x.eng.immutable[field]; ok && write && direct && !isFreshTerm(ref) {
		allowed := false
		me := shortFuncName(funcKey(x.fn))
		for _, w := range ws {
			if w == me {
				allowed = true
			}
		}
		name := "immutable:" + field
		itags := []string{"C03", "C08", "C09"}
		if strings.HasPrefix(field, "models.Entity.") {
			itags = append(itags, "C05") // the owner (and identity) of an entity is fixed when it is created
		}
		if allowed {
			st.obls = append(st.obls, Obl{Name: name, Tags: itags, Goal: TTrue, PCLen: len(st.pc), Static: "ok", Desc: field + " written by a declared writer"})
		} else {
			st.obligeStaticFail(name, itags, "write of "+field+" outside its declared writers "+strings.Join(ws, ", "))
		}
	}
	if x.spec.OnceBody {
		return
	}
	if owner, ok := x.eng.confined[field]; ok && !isFreshTerm(ref) {
		cur := x.spec.Goroutine
		if cur == "" {
			cur = "main"
		}
		kind := "read"
		if write {
			kind = "write"
		}
		name := fmt.Sprintf("confined:%s:%s", field, kind)
		if cur != owner {
			st.obligeStaticFail(name, []string{"C09"}, fmt.Sprintf("%s of %s (confined to goroutine %q) from goroutine %q without synchronisation", kind, field, owner, cur))
		} else {
			st.obls = append(st.obls, Obl{Name: name, Tags: []string{"C09"}, Goal: TTrue, PCLen: len(st.pc), Static: "ok", Desc: field + " accessed by its owning goroutine"})
		}
		return
	}
	mutex, ok := x.eng.guards[field]
	if !ok {
		return
	}
	if isFreshTerm(ref) {
		return // object under construction, not yet published
	}
	kind := "read"
	if write {
		kind = "write"
	}
	name := fmt.Sprintf("guard:%s:%s", field, kind)
	var eqs []Term
	for _, h := range st.held {
		if strings.HasPrefix(h.Field, "once:") {
			st.obls = append(st.obls, Obl{Name: name, Tags: []string{"C09"}, Goal: TTrue, PCLen: len(st.pc), Static: "ok", Desc: field + " initialised inside sync.Once.Do"})
			return
		}
		if h.Field != mutex {
			continue
		}
		if write && h.Mode != "W" {
			continue
		}
		if h.Ref.S == ref.S {
			st.obls = append(st.obls, Obl{Name: name, Tags: []string{"C09"}, Goal: TTrue, PCLen: len(st.pc), Static: "ok", Desc: field + " accessed with " + mutex + " held"})
			return
		}
		eqs = append(eqs, Eq(h.Ref, ref))
	}
	if len(eqs) == 0 {
		st.obligeStaticFail(name, []string{"C09"}, fmt.Sprintf("%s of %s without holding %s%s", kind, field, mutex, map[bool]string{true: " for writing", false: ""}[write]))
		return
	}
	st.oblige(name, []string{"C09"}, Or(eqs...), field+" accessed with "+mutex+" of the same object held")
}

// traceField finds the struct field a map value was loaded from.
func traceField(v ssa.Value, depth int) (obj ssa.Value, fa *ssa.FieldAddr, ok bool) {
	if depth > 6 {
		return nil, nil, false
	}
	switch n := v.(type) {
	case *ssa.UnOp:
		if n.Op == token.MUL {
			if f, isFA := n.X.(*ssa.FieldAddr); isFA {
				return f.X, f, true
			}
		}
	case *ssa.Extract:
		return traceField(n.Tuple, depth+1)
	case *ssa.Lookup:
		return traceField(n.X, depth+1)
	case *ssa.Next:
		if r, isR := n.Iter.(*ssa.Range); isR {
			return traceField(r.X, depth+1)
		}
	case *ssa.ChangeType:
		return traceField(n.X, depth+1)
	}
	return nil, nil, false
}

// guardCheckMap: map contents are protected by the guard of the field the map hangs off.
func (x *Exec) guardCheckMap(st *State, m ssa.Value, write bool) {
	if st.dryWrites != nil {
		return
	}
	obj, fa, ok := traceField(m, 0)
	if !ok {
		return
	}
	fr := st.top()
	ov, have := fr.locals[obj]
	if !have {
		return
	}
	stt := ptrElem(obj.Type()).Underlying()
	_ = stt
	p := Val{Typ: fa.Type(), C: []Term{ov.T()}, Prefix: ov.prefix() + "." + fieldName(fa)}
	x.guardCheckField(st, p.prefix(), ov.T(), write, false)
}

func fieldName(fa *ssa.FieldAddr) string {
	return structOf(ptrElem(fa.X.Type())).Field(fa.Field).Name()
}

func (x *Exec) checkLockOrder(st *State, field string, ref Term, mode string) {
	if st.dryWrites != nil {
		return
	}
	lvl, ok := x.eng.lockLevels[field]
	if !ok {
		return
	}
	name := "order:" + field
	for _, h := range st.held {
		hl, hok := x.eng.lockLevels[h.Field]
		if !hok {
			continue
		}
		if hl >= lvl {
			st.obligeStaticFail(name, []string{"C09"}, fmt.Sprintf("acquires %s (level %d) while holding %s (level %d)", field, lvl, h.Field, hl))
			return
		}
	}
	st.obls = append(st.obls, Obl{Name: name, Tags: []string{"C09"}, Goal: TTrue, PCLen: len(st.pc), Static: "ok", Desc: "lock acquired in level order"})
}

// lockSummary: the lock fields a function may acquire, transitively through static callees.
func (e *Engine) lockSummary(fn *ssa.Function, depth int, seen map[*ssa.Function]bool) map[string]bool {
	out := map[string]bool{}
	if fn == nil || fn.Blocks == nil || depth > 8 || seen[fn] {
		return out
	}
	seen[fn] = true
	for _, b := range fn.Blocks {
		for _, in := range b.Instrs {
			var c *ssa.CallCommon
			switch n := in.(type) {
			case *ssa.Call:
				c = n.Common()
			case *ssa.Defer:
				c = n.Common()
			default:
				continue
			}
			callee := c.StaticCallee()
			if callee == nil {
				continue
			}
			k := funcKey(callee)
			if k == "(*sync.Mutex).Lock" || k == "(*sync.RWMutex).Lock" || k == "(*sync.RWMutex).RLock" {
				if fa, ok := c.Args[0].(*ssa.FieldAddr); ok {
					out[typeName(ptrElem(fa.X.Type()))+"."+fieldName(fa)] = true
				}
				continue
			}
			if inRepo(callee) {
				for f := range e.lockSummary(callee, depth+1, seen) {
					out[f] = true
				}
			}
			// closures passed as arguments run inside the callee as well
			for _, a := range c.Args {
				if mc, ok := a.(*ssa.MakeClosure); ok {
					for f := range e.lockSummary(mc.Fn.(*ssa.Function), depth+1, seen) {
						out[f] = true
					}
				}
			}
		}
	}
	return out
}

// checkCalleeLocks: calling a contracted function acquires (and releases) the locks in its summary.
func (x *Exec) checkCalleeLocks(st *State, fn *ssa.Function, key string) {
	if st.dryWrites != nil || fn == nil {
		return
	}
	sum := x.eng.lockSummary(fn, 0, map[*ssa.Function]bool{})
	for _, field := range sortedKeys(sum) {
		lvl, ok := x.eng.lockLevels[field]
		if !ok {
			continue
		}
		name := "order:" + field + "@" + shortFuncName(key)
		bad := ""
		for _, h := range st.held {
			hl, hok := x.eng.lockLevels[h.Field]
			if hok && hl >= lvl {
				bad = fmt.Sprintf("calls %s, which acquires %s (level %d), while holding %s (level %d)", key, field, lvl, h.Field, hl)
			}
		}
		if bad != "" {
			st.obligeStaticFail(name, []string{"C09"}, bad)
		} else {
			st.obls = append(st.obls, Obl{Name: name, Tags: []string{"C09"}, Goal: TTrue, PCLen: len(st.pc), Static: "ok", Desc: "locks of the contracted callee are acquired in level order"})
		}
	}
}

// checkAtomic: a method of the type that owns a mutex performs its work in one critical section on
// its own receiver (check-then-act split over two critical sections is not atomic).
func (x *Exec) checkAtomic(st *State, field string, ref Term) {
	if st.dryWrites != nil || x.fn.Signature.Recv() == nil || len(x.fn.Params) == 0 {
		return
	}
	recv := x.fn.Params[0]
	pt, ok := types.Unalias(recv.Type()).Underlying().(*types.Pointer)
	if !ok {
		return
	}
	owner := typeName(pt.Elem())
	if !strings.HasPrefix(field, owner+".") {
		return
	}
	rv, ok := x.params[recv.Name()]
	if !ok || rv.T().S != ref.S {
		return
	}
	name := "atomic:" + field
	if st.released[field+"@"+ref.S] {
		st.obligeStaticFail(name, []string{"C09", "C10"}, "the method re-acquires "+field+" of its receiver after releasing it: its effect is split over two critical sections (not atomic under concurrent callers)")
		return
	}
	st.obls = append(st.obls, Obl{Name: name, Tags: []string{"C09", "C10"}, Goal: TTrue, PCLen: len(st.pc), Static: "ok", Desc: "single critical section on " + field})
}

package main

import (
	"go/constant"
	"strings"

	"golang.org/x/tools/go/ssa"
)

// structuralC15 scans cmd.main: the relay WebSocket server and the smoke-test route are mounted
// behind the token checks of package http. This is a syntactic check of the SSA, labelled
// "structural, not deductive" in the evidence.
func structuralC15(e *Engine) []*OblResult {
	var out []*OblResult
	add := func(name string, ok bool, desc, detail string) {
		r := &OblResult{Func: "cmd.main", Name: "structural:" + name, Tags: []string{"C15"}, Status: "discharged", Solver: "structural", Instances: 1, Desc: desc}
		if !ok {
			r.Status = "static-fail"
			r.Detail = detail
		}
		out = append(out, r)
	}
	mainFn := e.funcs["cmd.main"]
	if mainFn == nil {
		add("main", false, "cmd.main is present", "function cmd.main not found")
		return out
	}
	callee := func(v ssa.Value) string {
		if c, ok := v.(*ssa.Call); ok {
			if f := c.Common().StaticCallee(); f != nil {
				return funcKey(f)
			}
		}
		return ""
	}
	// unwrap interface / type conversions
	var unwrap func(v ssa.Value) ssa.Value
	unwrap = func(v ssa.Value) ssa.Value {
		switch n := v.(type) {
		case *ssa.MakeInterface:
			return unwrap(n.X)
		case *ssa.ChangeType:
			return unwrap(n.X)
		case *ssa.ChangeInterface:
			return unwrap(n.X)
		}
		return v
	}
	callsHandle := func(fn *ssa.Function) bool {
		for _, b := range fn.Blocks {
			for _, in := range b.Instrs {
				if c, ok := in.(*ssa.Call); ok {
					if f := c.Common().StaticCallee(); f != nil && funcKey(f) == "websocket.Handle" {
						return true
					}
				}
			}
		}
		return false
	}
	smoke, relay := 0, 0
	for _, b := range mainFn.Blocks {
		for _, in := range b.Instrs {
			// (1) route registrations
			if c, ok := in.(*ssa.Call); ok {
				f := c.Common().StaticCallee()
				if f != nil && (funcKey(f) == "(*net/http.ServeMux).HandleFunc" || funcKey(f) == "(*net/http.ServeMux).Handle") && len(c.Common().Args) == 3 {
					if pc, ok := c.Common().Args[1].(*ssa.Const); ok && pc.Value != nil && constant.StringVal(pc.Value) == "/smoke-test" {
						smoke++
						h := unwrap(c.Common().Args[2])
						add("smoke-test-behind-token-check", callee(h) == "http.VerifyAuthTokenHandler", "the /smoke-test route is registered with http.VerifyAuthTokenHandler(...)", "handler argument is "+h.String())
					}
				}
			}
			// (2) websocket.Server literals whose Handler runs the relay
			if a, ok := in.(*ssa.Alloc); ok && strings.HasSuffix(a.Type().String(), "golang.org/x/net/websocket.Server") {
				var handshake, handler ssa.Value
				for _, ref := range *a.Referrers() {
					fa, ok := ref.(*ssa.FieldAddr)
					if !ok {
						continue
					}
					name := structOf(ptrElem(a.Type())).Field(fa.Field).Name()
					for _, r2 := range *fa.Referrers() {
						if st, ok := r2.(*ssa.Store); ok {
							switch name {
							case "Handshake":
								handshake = st.Val
							case "Handler":
								handler = st.Val
							}
						}
					}
				}
				if handler == nil {
					continue
				}
				hv := unwrap(handler)
				mc, ok := hv.(*ssa.MakeClosure)
				if !ok || !callsHandle(mc.Fn.(*ssa.Function)) {
					continue
				}
				relay++
				ok2 := handshake != nil && callee(unwrap(handshake)) == "http.VerifyAuthToken"
				detail := "no Handshake field is set"
				if handshake != nil {
					detail = "Handshake is " + handshake.String()
				}
				add("relay-behind-token-check", ok2, "the websocket.Server that runs the relay handler has Handshake = http.VerifyAuthToken(...)", detail)
			}
		}
	}
	add("smoke-test-route-found", smoke == 1, "exactly one /smoke-test route is registered in cmd.main", "")
	add("relay-server-found", relay >= 1, "a websocket.Server running websocket.Handle is constructed in cmd.main", "")
	return out
}

//go:build verif

// Contracts for package featureflag, checked by /verif (hvc). This file contains no declarations:
// with the build tag off it is not compiled, with it on it adds nothing to the program.

package featureflag

//@ func (featureflag.FeatureFlag).IfNotSet
//@   property C17
//@   requires do != nil
//@   modifies nothing
//@   calls do() when !(flag in f)

//@ func (featureflag.FeatureFlag).IfSet
//@   property C17
//@   requires do != nil
//@   modifies nothing
//@   calls do() when flag in f

//@ func featureflag.New
//@   property C17
//@   modifies nothing
//@   allocates
//@   ensures {C17} result != nil && fresh(result)
//@   ensures {C17} forall j: int :: 0 <= j && j < len(flags) ==> flags[j] in result
//@   ensures {C17} forall n: Flag :: n in result ==> exists j: int :: 0 <= j && j < len(flags) && flags[j] == n
//@   loop 1:
//@     ghost src
//@     update src[$f] = $rangeindex
//@     invariant -1 <= $rangeindex && $rangeindex < len(flags)
//@     invariant forall j: int :: 0 <= j && j <= $rangeindex ==> flags[j] in $featureFlag
//@     invariant forall n: Flag :: n in $featureFlag ==> 0 <= src[n] && src[n] <= $rangeindex && flags[src[n]] == n

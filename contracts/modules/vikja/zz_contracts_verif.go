//go:build verif

// Contracts for package vikja, checked by /verif (hvc). This file contains no declarations:
// with the build tag off it is not compiled, with it on it adds nothing to the program.

package vikja

// stored actions are handed out by EntityActions and marshalled outside the lock: never written once stored
//@ type vikjapb.EntityAction
//@   immutable EntityId, Name, Timestamp, Data

//@ type State
//@   guarded_by entityActions : entityActionMutex
//@   lock_level entityActionMutex = 45

// ---------------------------------------------------------------------------------------------
// Entity actions: view  action : (entity, name) -> latest action
// ---------------------------------------------------------------------------------------------

//@ spec fn hasAction(s *State, e uint32, n string) bool = e in s.entityActions && n in s.entityActions[e]
//@ spec fn actionAt(s *State, e uint32, n string) *vikjapb.EntityAction = s.entityActions[e][n]
//@ spec fn inst(ts *timestamppb.Timestamp) int = ts.Seconds * 1000000000 + ts.Nanos
//@ spec fn wfActions(s *State) bool = (forall e: uint32 :: e in s.entityActions ==> s.entityActions[e] != nil)
//@     && (forall e1: uint32, e2: uint32 :: e1 in s.entityActions && e2 in s.entityActions && s.entityActions[e1] == s.entityActions[e2] ==> e1 == e2)
//@     && (forall e: uint32, n: string :: hasAction(s, e, n) ==> actionAt(s, e, n) != nil && actionAt(s, e, n).EntityId == e && actionAt(s, e, n).Name == n && actionAt(s, e, n).Timestamp != nil)
// C03: the action maps of two sessions' vikja states are separate objects (a map that is still nil holds
// nothing), and what the members of the other session can observe of theirs.
//@ spec fn sepVikja(a *State, b *State) bool = a != b && (a.entityActions != b.entityActions || a.entityActions == nil)
//@     && (forall e1: uint32, e2: uint32 :: e1 in a.entityActions && e2 in b.entityActions ==> a.entityActions[e1] != b.entityActions[e2])
//@ spec fn vikjaSame(o *State) bool = unchanged(o.entityActions) && same_contents(o.entityActions) && (forall e: uint32 :: e in o.entityActions ==> same_contents(o.entityActions[e]))
//@ spec fn wfVikja(m *Module) bool = m.currentSession != nil ==> m.state != nil && wfActions(m.state) && wfEnts(m.currentSession) && wfParts(m.currentSession)

//@ func (*modules/vikja.State).SetEntityAction
//@   property C16
//@   requires wfActions(s) && ea != nil && ea.Timestamp != nil
//@   modifies s.entityActions, contents(s.entityActions), contents(s.entityActions[ea.EntityId]) if ea.EntityId in s.entityActions
//@   allocates
//@   ensures wfActions(s)
//@   ensures {C03} (s.entityActions == old(s.entityActions) && s.entityActions != nil) || fresh(s.entityActions)
//@   ensures {C03} forall e: uint32 :: e in s.entityActions ==> (old(e in s.entityActions) && s.entityActions[e] == old(s.entityActions[e])) || fresh(s.entityActions[e])
//@   ensures {C16} hasAction(s, ea.EntityId, ea.Name) && actionAt(s, ea.EntityId, ea.Name) == ea
//@   ensures {C16} forall e: uint32, n: string :: (e != ea.EntityId || n != ea.Name) ==> (hasAction(s, e, n) <==> old(hasAction(s, e, n))) && (hasAction(s, e, n) ==> actionAt(s, e, n) == old(actionAt(s, e, n)))

//@ func (*modules/vikja.State).EntityAction
//@   property C16
//@   requires wfActions(s)
//@   modifies nothing
//@   ensures result1 <==> hasAction(s, entityID, actionName)
//@   ensures result1 ==> result0 == actionAt(s, entityID, actionName)

//@ func (*modules/vikja.State).RemoveEntityActions
//@   property C16, C06
//@   requires wfActions(s)
//@   modifies contents(s.entityActions)
//@   ensures wfActions(s)
//@   ensures {C03} forall e: uint32 :: e in s.entityActions ==> old(e in s.entityActions) && s.entityActions[e] == old(s.entityActions[e])
//@   ensures {C16,C06} forall e: uint32, n: string :: (hasAction(s, e, n) <==> (old(hasAction(s, e, n)) && e != entityID)) && (hasAction(s, e, n) ==> actionAt(s, e, n) == old(actionAt(s, e, n)))

//@ func (*modules/vikja.State).EntityActions
//@   property C16, C01
//@   event
//@   requires wfActions(s)
//@   modifies nothing
//@   allocates
//@   ensures {C16,C01} forall j: int :: 0 <= j && j < len(result) ==> result[j] != nil && hasAction(s, result[j].EntityId, result[j].Name) && actionAt(s, result[j].EntityId, result[j].Name) == result[j]
//@   ensures {C16,C01} forall e: uint32, n: string :: hasAction(s, e, n) ==> exists j: int :: 0 <= j && j < len(result) && result[j] == actionAt(s, e, n)
//@   loop 1:
//@     ghost pos
//@     invariant forall k: uint32 :: k in V1 ==> k in s.entityActions
//@     invariant forall j: int :: 0 <= j && j < len($entityActions) ==> $entityActions[j] != nil && hasAction(s, $entityActions[j].EntityId, $entityActions[j].Name) && actionAt(s, $entityActions[j].EntityId, $entityActions[j].Name) == $entityActions[j]
//@     invariant forall e: uint32, n: string :: e in V1 && hasAction(s, e, n) ==> 0 <= pos[actionAt(s, e, n)] && pos[actionAt(s, e, n)] < len($entityActions) && $entityActions[pos[actionAt(s, e, n)]] == actionAt(s, e, n)
//@   loop 2:
//@     update pos[$ea] = len($entityActions) - 1
//@     invariant forall k: uint32 :: k in V1 ==> k in s.entityActions
//@     invariant exists e0: uint32 :: e0 in V1 && e0 in s.entityActions && s.entityActions[e0] == $eas
//@     invariant forall j: int :: 0 <= j && j < len($entityActions) ==> $entityActions[j] != nil && hasAction(s, $entityActions[j].EntityId, $entityActions[j].Name) && actionAt(s, $entityActions[j].EntityId, $entityActions[j].Name) == $entityActions[j]
//@     invariant forall e: uint32, n: string :: e in V1 && hasAction(s, e, n) && (s.entityActions[e] != $eas || n in V2) ==> 0 <= pos[actionAt(s, e, n)] && pos[actionAt(s, e, n)] < len($entityActions) && $entityActions[pos[actionAt(s, e, n)]] == actionAt(s, e, n)

// ---------------------------------------------------------------------------------------------
// Module entry points
// ---------------------------------------------------------------------------------------------

//@ func (*modules/vikja.Module).Init
//@   property C16
//@   requires s != nil && p != nil && s.moduleStates != nil
//@   requires "vikja" in s.moduleStates ==> dyntype(s.moduleStates["vikja"], *State) && s.moduleStates["vikja"].(*State) != nil
//@   modifies {C03} m.currentSession, m.currentParticipant, m.state, contents(s.moduleStates)
//@   allocates
//@   ensures m.currentSession == s && m.currentParticipant == p && m.state != nil
//@   ensures {C16,C03,C02} "vikja" in s.moduleStates && s.moduleStates["vikja"].(*State) == m.state
//@   ensures {C16,C03,C02} old("vikja" in s.moduleStates) ==> m.state == old(s.moduleStates["vikja"].(*State)) && same_contents(s.moduleStates)
//@   ensures {C03} !old("vikja" in s.moduleStates) ==> fresh(m.state)

//@ func (*modules/vikja.Module).handleSetEntityAction
//@   event
//@   modifies {C03} m.state.entityActions, contents(m.state.entityActions), all contents(map[string]*vikjapb.EntityAction @ modules/vikja.State.entityActions[]), all ghost.*
//@   allocates
//@   property C16, C04
//@   let req = decoded(msg, vikjapb.EntityActionRequest)
//@   let A = decoded(msg, vikjapb.EntityActionRequest).EntityAction
//@   let S = m.currentSession
//@   let P = m.currentParticipant
//@   let St = m.state
//@   requires wfVikja(m) && respond != nil
//@   ensures wfVikja(m)
//@   ensures {C03} forall o: *State :: o != nil && !fresh(o) && old(m.state != nil && sepVikja(m.state, o)) ==> vikjaSame(o) && sepVikja(m.state, o)
//@   behaviour undecodable:
//@     assumes !decode_ok(msg)
//@     ensures result != nil && unchanged_world()
//@     emits []
//@   behaviour not_joined:
//@     assumes decode_ok(msg) && (S == nil || P == nil)
//@     ensures {C04,C03} result != nil && unchanged_world()
//@     emits {C04,C03} []
//@   behaviour malformed:
//@     assumes decode_ok(msg) && S != nil && P != nil && (A == nil || A.Name == "" || A.Timestamp == nil)
//@     ensures {C16,C01} result == nil && unchanged_world()
//@     emits {C16,C04,C01} [send(respond, hagallpb.ErrorResponse{Type: hagallpb.MsgType_MSG_TYPE_ERROR_RESPONSE, RequestId: req.RequestId, Code: hagallpb.ErrorCode_ERROR_CODE_BAD_REQUEST})]
//@   behaviour no_entity:
//@     assumes decode_ok(msg) && S != nil && P != nil && A != nil && A.Name != "" && A.Timestamp != nil && !(A.EntityId in S.entities)
//@     ensures {C16,C01} result == nil && unchanged_world()
//@     emits {C16,C04,C01} [send(respond, hagallpb.ErrorResponse{Type: hagallpb.MsgType_MSG_TYPE_ERROR_RESPONSE, RequestId: req.RequestId, Code: hagallpb.ErrorCode_ERROR_CODE_BAD_REQUEST})]
//@   behaviour stale:
//@     assumes decode_ok(msg) && S != nil && P != nil && A != nil && A.Name != "" && A.Timestamp != nil && A.EntityId in S.entities && hasAction(St, A.EntityId, A.Name) && A.Timestamp.Seconds * 1000000000 + A.Timestamp.Nanos < inst(actionAt(St, A.EntityId, A.Name).Timestamp)
//@     ensures {C16,C01} result == nil && unchanged_world()
//@     emits {C16,C04,C02,C01} [send(respond, hagallpb.ErrorResponse{Type: hagallpb.MsgType_MSG_TYPE_ERROR_RESPONSE, RequestId: req.RequestId, Code: hagallpb.ErrorCode_ERROR_CODE_BAD_REQUEST})]
//@   behaviour accepted:
//@     assumes decode_ok(msg) && S != nil && P != nil && A != nil && A.Name != "" && A.Timestamp != nil && A.EntityId in S.entities && !(hasAction(St, A.EntityId, A.Name) && A.Timestamp.Seconds * 1000000000 + A.Timestamp.Nanos < inst(actionAt(St, A.EntityId, A.Name).Timestamp))
//@     ensures {C16,C01} result == nil && hasAction(St, A.EntityId, A.Name) && actionAt(St, A.EntityId, A.Name) == A
//@     ensures {C16,C01} forall e: uint32, n: string :: (e != A.EntityId || n != A.Name) ==> (hasAction(St, e, n) <==> old(hasAction(St, e, n))) && (hasAction(St, e, n) ==> actionAt(St, e, n) == old(actionAt(St, e, n)))
//@     emits {C16,C04,C02,C01} [send(respond, vikjapb.EntityActionResponse{Type: vikjapb.MsgType_MSG_TYPE_VIKJA_ENTITY_ACTION_RESPONSE, RequestId: req.RequestId}); Broadcast(S, P, vikjapb.EntityActionBroadcast{Type: vikjapb.MsgType_MSG_TYPE_VIKJA_ENTITY_ACTION_BROADCAST, OriginTimestamp: req.Timestamp, EntityAction: A})]
//@   complete behaviours
//@   disjoint behaviours

//@ func (*modules/vikja.Module).handleEntityDelete
//@   event
//@   modifies {C03} contents(m.state.entityActions)
//@   allocates
//@   property C16, C06
//@   let id = decoded(msg, hagallpb.EntityDeleteRequest).EntityId
//@   let S = m.currentSession
//@   let St = m.state
//@   requires wfVikja(m) && m.currentSession != nil
//@   ensures wfVikja(m)
//@   emits []
//@   ensures {C03} forall o: *State :: o != nil && !fresh(o) && old(m.state != nil && sepVikja(m.state, o)) ==> vikjaSame(o) && sepVikja(m.state, o)
//@   behaviour undecodable:
//@     assumes !decode_ok(msg)
//@     ensures result != nil && unchanged_world()
//@   behaviour still_there:
//@     assumes decode_ok(msg) && id in S.entities
//@     ensures result == nil && unchanged_world()
//@   behaviour cascade:
//@     assumes decode_ok(msg) && !(id in S.entities)
//@     ensures {C16,C06,C01} result == nil && forall e: uint32, n: string :: (hasAction(St, e, n) <==> (old(hasAction(St, e, n)) && e != id)) && (hasAction(St, e, n) ==> actionAt(St, e, n) == old(actionAt(St, e, n)))
//@   complete behaviours
//@   disjoint behaviours

//@ func (*modules/vikja.Module).handleParticipantJoin
//@   event
//@   modifies all ghost.*
//@   allocates
//@   property C16, C01
//@   requires wfVikja(m) && m.currentSession != nil && respond != nil
//@   ensures result == nil && unchanged_world()
//@   emits {C16,C01} [EntityActions(m.state); send(respond, vikjapb.State{Type: vikjapb.MsgType_MSG_TYPE_VIKJA_STATE})]
//@   ensures {C03} forall o: *State :: o != nil && !fresh(o) && old(m.state != nil && sepVikja(m.state, o)) ==> vikjaSame(o) && sepVikja(m.state, o)

//@ func (*modules/vikja.Module).HandleDisconnect
//@   property C16, C06
//@   let S = m.currentSession
//@   let P = m.currentParticipant
//@   let St = m.state
//@   requires wfVikja(m)
//@   requires m.currentParticipant != nil ==> m.currentSession != nil
//@   ensures wfVikja(m)
//@   ensures {C03} forall o: *State :: o != nil && !fresh(o) && old(m.state != nil && sepVikja(m.state, o)) ==> vikjaSame(o) && sepVikja(m.state, o)
//@   behaviour unbound:
//@     assumes P == nil
//@     ensures unchanged_world()
//@   behaviour bound:
//@     assumes P != nil
//@     ensures {C16,C06,C01} forall e: uint32, n: string :: (hasAction(St, e, n) <==> (old(hasAction(St, e, n)) && !(e in P.entityIDs && (!(e in S.entities) || !S.entities[e].Persist)))) && (hasAction(St, e, n) ==> actionAt(St, e, n) == old(actionAt(St, e, n)))
//@   complete behaviours
//@   disjoint behaviours
//@   loop 1:
//@     invariant wfActions(St)
//@     invariant {C03} unchanged(m.state) && forall o: *State :: o != nil && !fresh(o) && old(m.state != nil && sepVikja(m.state, o)) ==> vikjaSame(o) && sepVikja(m.state, o)
//@     invariant forall k: uint32 :: k in V ==> k in P.entityIDs
//@     invariant forall e: uint32, n: string :: (hasAction(St, e, n) <==> (old(hasAction(St, e, n)) && !(e in V && (!(e in S.entities) || !S.entities[e].Persist)))) && (hasAction(St, e, n) ==> actionAt(St, e, n) == old(actionAt(St, e, n)))

//@ func (*modules/vikja.Module).HandleMsg
//@   property C16, C04
//@   let isJoin = msgtype(msg) == enum(hagallpb.MsgType_MSG_TYPE_PARTICIPANT_JOIN_REQUEST)
//@   let isDelete = msgtype(msg) == enum(hagallpb.MsgType_MSG_TYPE_ENTITY_DELETE_REQUEST)
//@   let isOwn = enumnum(msgtype(msg)) == vikjapb.MsgType_MSG_TYPE_VIKJA_ENTITY_ACTION_REQUEST
//@   requires wfVikja(m) && respond != nil && m.currentSession != nil && msgtype(msg) != nil
//@   requires m.state.entityActions == m.state.entityActions
//@   behaviour join:
//@     assumes isJoin
//@     emits {C16,C04} [handleParticipantJoin(m, _, respond, msg)]
//@   behaviour delete:
//@     assumes !isJoin && isDelete
//@     emits {C16,C04} [handleEntityDelete(m, _, respond, msg)]
//@   behaviour own:
//@     assumes !isJoin && !isDelete && isOwn
//@     emits {C16,C04} [handleSetEntityAction(m, _, respond, msg)]
//@   behaviour skip:
//@     assumes !isJoin && !isDelete && !isOwn
//@     ensures {C16,C04} istype(result, hwebsocket.ErrTypeMsgSkip) && unchanged_world()
//@     emits {C16,C04} []
//@   complete behaviours
//@   disjoint behaviours

//go:build verif

// Contracts for package vikja, checked by /verif (hvc). This file contains no declarations:
// with the build tag off it is not compiled, with it on it adds nothing to the program.

package vikja

//@ type State
//@   guarded_by entityActions : entityActionMutex
//@   lock_level entityActionMutex = 45

//go:build verif

// Contracts for package modules, checked by /verif (hvc). This file contains no declarations:
// with the build tag off it is not compiled, with it on it adds nothing to the program.

package modules

// Interface-level contracts of Module: what the core handler may rely on when it calls a module.
// Parameters are named recv, a0, a1, ... Every concrete module proves the same frame.

//@ func (modules.Module).Init
//@   requires a0 != nil && a1 != nil
//@   modifies contents(a0.moduleStates), all modules/*
//@   allocates

//@ func (modules.Module).HandleDisconnect
//@   modifies all modules/*
//@   allocates

//@ func (modules.Module).Name
//@   modifies nothing

//@ func (modules.Module).HandleMsg
//@   event HandleMsg
//@   modifies all modules/*, all ghost.delivered, all ghost.sent
//@   allocates

//go:build verif

// Contracts for package dagaz, checked by /verif (hvc). This file contains no declarations:
// with the build tag off it is not compiled, with it on it adds nothing to the program.

package dagaz

//@ func modules/dagaz.NewRegularGrid
//@   property C20
//@   requires numRows <= 1024 && numCols <= 1024
//@   modifies all elem:[][]*modules/dagaz.Quad*
//@   allocates
//@   ensures {C20} result != nil && fresh(result) && result.PlaneCount == 0 && result.MergeCount == 0
//@   ensures {C20} result.Resolution >= 1 && len(result.Grid) >= 1
//@   loop 1:
//@     invariant 0 <= $i && $i <= $numRows && $numRows >= 1 && $numRows <= 1024
//@     invariant $result != nil && fresh($result) && $result.PlaneCount == 0 && $result.MergeCount == 0 && $result.Resolution >= 1 && len($result.Grid) == $numRows && fresh($result.Grid)

// Ground-plane samples are shared by the participants of a session and kept for as long as the
// session lives: binding a further participant must not replace the session's spatial partition.
//@ func (*modules/dagaz.Module).Init
//@   property C20
//@   requires s != nil && p != nil && s.moduleStates != nil
//@   requires "dagaz" in s.moduleStates ==> dyntype(s.moduleStates["dagaz"], *State) && s.moduleStates["dagaz"].(*State) != nil && s.moduleStates["dagaz"].(*State).SpatialPartition != nil
//@   modifies {C03} m.currentSession, m.currentParticipant, m.state, contents(s.moduleStates), all elem:[][]*modules/dagaz.Quad*
//@   allocates
//@   ensures m.currentSession == s && m.currentParticipant == p && m.state != nil && m.state.SpatialPartition != nil
//@   ensures {C20,C03} "dagaz" in s.moduleStates && s.moduleStates["dagaz"].(*State) == m.state
//@   ensures {C20,C03} old("dagaz" in s.moduleStates) ==> m.state == old(s.moduleStates["dagaz"].(*State)) && m.state.SpatialPartition == old(s.moduleStates["dagaz"].(*State).SpatialPartition)
//@   ensures {C03} !old("dagaz" in s.moduleStates) ==> fresh(m.state)

// ---------------------------------------------------------------------------------------------
// The spatial partition as seen by the module handlers (the grid itself — floating-point geometry —
// is outside the contracts; see DESIGN.md §11): abstract events that may rewrite the partition.
// ---------------------------------------------------------------------------------------------

//@ func (modules/dagaz.SpatialPartition).InsertQuad
//@   event
//@   modifies all modules/dagaz.RegularGrid.*, all modules/dagaz.Quad*
//@   allocates

//@ func (modules/dagaz.SpatialPartition).IntersectQuad
//@   event
//@   modifies nothing
//@   allocates

//@ func (modules/dagaz.SpatialPartition).GetRegion
//@   event
//@   modifies nothing
//@   allocates
//@   trusted_ensures forall j: int :: 0 <= j && j < len(result) ==> result[j] != nil

//@ func (modules/dagaz.SpatialPartition).GetDebugInfo
//@   event
//@   modifies nothing
//@   allocates

//@ spec fn wfDagaz(m *Module) bool = m.currentSession != nil ==> m.state != nil && m.state.SpatialPartition != nil

//@ func (*modules/dagaz.Module).HandleDagazQuadSample
//@   property C20, C08
//@   event
//@   let SP = m.state.SpatialPartition
//@   requires wfDagaz(m)
//@   modifies all modules/dagaz.RegularGrid.*, all modules/dagaz.Quad*
//@   allocates
//@   behaviour undecodable:
//@     assumes !decode_ok(msg)
//@     ensures result != nil && unchanged_world()
//@   behaviour not_joined:
//@     assumes decode_ok(msg) && m.currentSession == nil
//@     ensures {C04,C03} result != nil && unchanged_world()
//@   behaviour stored:
//@     assumes decode_ok(msg) && m.currentSession != nil
//@     ensures {C20} result == nil
//@   complete behaviours
//@   disjoint behaviours
//@   loop 1:
//@     invariant -1 <= $rangeindex && unchanged(m.state, m.currentSession) && m.state.SpatialPartition == SP
//@     emits {C20} [InsertQuad(SP, _)]

//@ func (*modules/dagaz.Module).HandleDagazGetGroundPlane
//@   property C04, C08
//@   event
//@   let req = decoded(msg, dagazpb.DagazGetGroundPlaneRequest)
//@   requires wfDagaz(m) && respond != nil
//@   modifies all ghost.*
//@   allocates
//@   behaviour undecodable:
//@     assumes !decode_ok(msg)
//@     ensures result != nil && unchanged_world()
//@     emits []
//@   behaviour not_joined:
//@     assumes decode_ok(msg) && m.currentSession == nil
//@     ensures {C04,C03} result != nil && unchanged_world()
//@     emits {C04,C03} []
//@   behaviour answered:
//@     assumes decode_ok(msg) && m.currentSession != nil
//@     ensures {C04} result == nil && unchanged_world()
//@     emits {C04} [IntersectQuad(m.state.SpatialPartition, _); send(respond, dagazpb.DagazGetGroundPlaneResponse{Type: dagazpb.MsgType_MSG_TYPE_DAGAZ_GET_GROUND_PLANE_RESPONSE, RequestId: req.RequestId})]
//@   complete behaviours
//@   disjoint behaviours

//@ func (*modules/dagaz.Module).HandleDagazGetRegion
//@   property C04, C08
//@   event
//@   let req = decoded(msg, dagazpb.DagazGetRegionRequest)
//@   requires wfDagaz(m) && respond != nil
//@   modifies all ghost.*
//@   allocates
//@   behaviour undecodable:
//@     assumes !decode_ok(msg)
//@     ensures result != nil && unchanged_world()
//@     emits []
//@   behaviour not_joined:
//@     assumes decode_ok(msg) && m.currentSession == nil
//@     ensures {C04,C03} result != nil && unchanged_world()
//@     emits {C04,C03} []
//@   behaviour answered:
//@     assumes decode_ok(msg) && m.currentSession != nil
//@     ensures {C04} result == nil && unchanged_world()
//@     emits {C04} [GetRegion(m.state.SpatialPartition, _, _); send(respond, dagazpb.DagazGetRegionResponse{Type: dagazpb.MsgType_MSG_TYPE_DAGAZ_GET_REGION_RESPONSE, RequestId: req.RequestId})]
//@   complete behaviours
//@   disjoint behaviours
//@   loop 1:
//@     invariant 0 <= $i && $i <= len($regionQuads) && len($regionQuadsProtobuf) == len($regionQuads)
//@     invariant forall j: int :: 0 <= j && j < len($regionQuads) ==> $regionQuads[j] != nil

//@ func (*modules/dagaz.Module).HandleDagazGetDebugInfo
//@   property C04, C08
//@   event
//@   let req = decoded(msg, dagazpb.DagazGetDebugInfoRequest)
//@   requires wfDagaz(m) && respond != nil
//@   modifies all ghost.*
//@   allocates
//@   behaviour undecodable:
//@     assumes !decode_ok(msg)
//@     ensures result != nil && unchanged_world()
//@     emits []
//@   behaviour not_joined:
//@     assumes decode_ok(msg) && m.currentSession == nil
//@     ensures {C04,C03} result != nil && unchanged_world()
//@     emits {C04,C03} []
//@   behaviour answered:
//@     assumes decode_ok(msg) && m.currentSession != nil
//@     ensures {C04} result == nil && unchanged_world()
//@     emits {C04} [GetDebugInfo(m.state.SpatialPartition); send(respond, dagazpb.DagazGetDebugInfoResponse{Type: dagazpb.MsgType_MSG_TYPE_DAGAZ_GET_DEBUG_INFO_RESPONSE, RequestId: req.RequestId})]
//@   complete behaviours
//@   disjoint behaviours

//@ func (*modules/dagaz.Module).HandleMsg
//@   property C04, C20
//@   let N = enumnum(msgtype(msg))
//@   requires wfDagaz(m) && respond != nil && msgtype(msg) != nil
//@   behaviour sample:
//@     assumes N == dagazpb.MsgType_MSG_TYPE_DAGAZ_QUAD_SAMPLE
//@     emits {C04,C20} [HandleDagazQuadSample(m, _, msg)]
//@   behaviour ground:
//@     assumes N == dagazpb.MsgType_MSG_TYPE_DAGAZ_GET_GROUND_PLANE_REQUEST
//@     emits {C04} [HandleDagazGetGroundPlane(m, _, respond, msg)]
//@   behaviour region:
//@     assumes N == dagazpb.MsgType_MSG_TYPE_DAGAZ_GET_REGION_REQUEST
//@     emits {C04} [HandleDagazGetRegion(m, _, respond, msg)]
//@   behaviour debug:
//@     assumes N == dagazpb.MsgType_MSG_TYPE_DAGAZ_GET_DEBUG_INFO_REQUEST
//@     emits {C04} [HandleDagazGetDebugInfo(m, _, respond, msg)]
//@   behaviour other:
//@     assumes N != dagazpb.MsgType_MSG_TYPE_DAGAZ_QUAD_SAMPLE && N != dagazpb.MsgType_MSG_TYPE_DAGAZ_GET_GROUND_PLANE_REQUEST && N != dagazpb.MsgType_MSG_TYPE_DAGAZ_GET_REGION_REQUEST && N != dagazpb.MsgType_MSG_TYPE_DAGAZ_GET_DEBUG_INFO_REQUEST
//@     ensures {C04} result == nil && unchanged_world()
//@     emits {C04} []
//@   complete behaviours
//@   disjoint behaviours

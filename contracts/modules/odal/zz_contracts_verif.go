//go:build verif

// Contracts for package odal, checked by /verif (hvc). This file contains no declarations:
// with the build tag off it is not compiled, with it on it adds nothing to the program.

package odal

//@ type State
//@   guarded_by assetInstances : assetMutex
//@   lock_level assetMutex = 45

//go:build verif

// Contracts for package odal, checked by /verif (hvc). This file contains no declarations:
// with the build tag off it is not compiled, with it on it adds nothing to the program.

package odal

// stored asset instances are handed out by AssetInstances and marshalled outside the lock: never written once stored
//@ type odalpb.AssetInstance
//@   immutable Id, AssetId, ParticipantId, EntityId

//@ type State
//@   guarded_by assetInstances : assetMutex
//@   lock_level assetMutex = 45

// ---------------------------------------------------------------------------------------------
// Asset instances: view  asset : entity -> instance  (at most one per entity)
// ---------------------------------------------------------------------------------------------

//@ spec fn wfAssets(s *State) bool = wfGen(s.assetInstanceIDs) && len(s.assetInstanceIDs.reusableIDs) == 0
//@     && (forall e: uint32 :: e in s.assetInstances ==> s.assetInstances[e] != nil && s.assetInstances[e].EntityId == e && 1 <= s.assetInstances[e].Id && s.assetInstances[e].Id <= s.assetInstanceIDs.currentID)
//@     && (forall e1: uint32, e2: uint32 :: e1 in s.assetInstances && e2 in s.assetInstances && s.assetInstances[e1].Id == s.assetInstances[e2].Id ==> e1 == e2)
// C03: separation of two sessions' odal states and what the other session's members observe of theirs.
//@ spec fn sepOdal(a *State, b *State) bool = a != b && (a.assetInstances != b.assetInstances || a.assetInstances == nil) && (a.assetInstanceIDs.reusableIDs != b.assetInstanceIDs.reusableIDs || a.assetInstanceIDs.reusableIDs == nil)
//@ spec fn odalSame(o *State) bool = unchanged(o.assetInstances, o.assetInstanceIDs.currentID, o.assetInstanceIDs.reusableIDs) && same_contents(o.assetInstances, o.assetInstanceIDs.reusableIDs)
//@ spec fn wfOdal(m *Module) bool = m.currentSession != nil ==> m.state != nil && wfAssets(m.state) && wfEnts(m.currentSession) && wfParts(m.currentSession)

//@ func (*modules/odal.State).SetAssetInstance
//@   property C16
//@   requires ai != nil
//@   modifies s.assetInstances, contents(s.assetInstances)
//@   allocates
//@   ensures {C16} ai.EntityId in s.assetInstances && s.assetInstances[ai.EntityId] == ai
//@   ensures {C16} forall e: uint32 :: e != ai.EntityId ==> ((e in s.assetInstances) <==> old(e in s.assetInstances)) && (e in s.assetInstances ==> s.assetInstances[e] == old(s.assetInstances[e]))

//@ func (*modules/odal.State).RemoveAssetInstance
//@   property C16, C06
//@   modifies contents(s.assetInstances)
//@   ensures {C16,C06} forall e: uint32 :: ((e in s.assetInstances) <==> (old(e in s.assetInstances) && e != entityID)) && (e in s.assetInstances ==> s.assetInstances[e] == old(s.assetInstances[e]))

//@ func (*modules/odal.State).AssetInstances
//@   property C16, C01
//@   event
//@   requires forall e: uint32 :: e in s.assetInstances ==> s.assetInstances[e] != nil && s.assetInstances[e].EntityId == e
//@   modifies nothing
//@   allocates
//@   ensures {C16,C01} len(result) == len(s.assetInstances)
//@   ensures {C16,C01} forall j: int :: 0 <= j && j < len(result) ==> result[j] != nil && result[j].EntityId in s.assetInstances && s.assetInstances[result[j].EntityId] == result[j]
//@   ensures {C16,C01} forall e: uint32 :: e in s.assetInstances ==> exists j: int :: 0 <= j && j < len(result) && result[j] == s.assetInstances[e]
//@   loop 1:
//@     ghost pos
//@     update pos[$ai.EntityId] = len($assetInstances) - 1
//@     invariant len($assetInstances) == N
//@     invariant forall k: uint32 :: k in V ==> k in s.assetInstances
//@     invariant forall j: int :: 0 <= j && j < len($assetInstances) ==> $assetInstances[j] != nil && $assetInstances[j].EntityId in s.assetInstances && s.assetInstances[$assetInstances[j].EntityId] == $assetInstances[j]
//@     invariant forall e: uint32 :: e in V ==> 0 <= pos[e] && pos[e] < len($assetInstances) && $assetInstances[pos[e]] == s.assetInstances[e]

//@ func (*modules/odal.Module).Init
//@   property C16
//@   requires s != nil && p != nil && s.moduleStates != nil
//@   requires "odal" in s.moduleStates ==> dyntype(s.moduleStates["odal"], *State) && s.moduleStates["odal"].(*State) != nil
//@   modifies {C03} m.currentSession, m.currentParticipant, m.state, contents(s.moduleStates)
//@   allocates
//@   ensures m.currentSession == s && m.currentParticipant == p && m.state != nil
//@   ensures {C16,C03,C02,C10} "odal" in s.moduleStates && s.moduleStates["odal"].(*State) == m.state
//@   ensures {C16,C03,C02,C10} old("odal" in s.moduleStates) ==> m.state == old(s.moduleStates["odal"].(*State)) && same_contents(s.moduleStates)
//@   ensures {C03} !old("odal" in s.moduleStates) ==> fresh(m.state)

//@ func (*modules/odal.Module).handleAssetInstanceAdd
//@   event
//@   modifies {C03} m.state.assetInstances, contents(m.state.assetInstances), m.state.assetInstanceIDs.currentID, contents(m.state.assetInstanceIDs.reusableIDs), all ghost.*
//@   allocates
//@   property C16, C04
//@   let req = decoded(msg, odalpb.AssetInstanceAddRequest)
//@   let E = decoded(msg, odalpb.AssetInstanceAddRequest).EntityId
//@   let S = m.currentSession
//@   let P = m.currentParticipant
//@   let St = m.state
//@   let nid = m.state.assetInstanceIDs.currentID + 1
//@   requires wfOdal(m) && respond != nil
//@   requires m.currentSession != nil ==> m.state.assetInstanceIDs.currentID < 4294967295
//@   ensures wfOdal(m)
//@   ensures {C03} forall o: *State :: o != nil && !fresh(o) && old(m.state != nil && sepOdal(m.state, o)) ==> odalSame(o) && sepOdal(m.state, o)
//@   behaviour undecodable:
//@     assumes !decode_ok(msg)
//@     ensures result != nil && unchanged_world()
//@     emits []
//@   behaviour not_joined:
//@     assumes decode_ok(msg) && (S == nil || P == nil)
//@     ensures {C04,C03} result != nil && unchanged_world()
//@     emits {C04,C03} []
//@   behaviour no_asset_id:
//@     assumes decode_ok(msg) && S != nil && P != nil && req.AssetId == ""
//@     ensures {C16,C01} result == nil && unchanged_world()
//@     emits {C16,C04,C01} [send(respond, hagallpb.ErrorResponse{Type: hagallpb.MsgType_MSG_TYPE_ERROR_RESPONSE, RequestId: req.RequestId, Code: hagallpb.ErrorCode_ERROR_CODE_BAD_REQUEST})]
//@   behaviour no_entity:
//@     assumes decode_ok(msg) && S != nil && P != nil && req.AssetId != "" && !(E in S.entities)
//@     ensures {C16,C01} result == nil && unchanged_world()
//@     emits {C16,C04,C01} [send(respond, hagallpb.ErrorResponse{Type: hagallpb.MsgType_MSG_TYPE_ERROR_RESPONSE, RequestId: req.RequestId, Code: hagallpb.ErrorCode_ERROR_CODE_NOT_FOUND})]
//@   behaviour foreign:
//@     assumes decode_ok(msg) && S != nil && P != nil && req.AssetId != "" && E in S.entities && S.entities[E].ParticipantID != P.ID
//@     ensures {C16,C05,C01} result == nil && unchanged_world()
//@     emits {C16,C05,C04,C02,C01} [send(respond, hagallpb.ErrorResponse{Type: hagallpb.MsgType_MSG_TYPE_ERROR_RESPONSE, RequestId: req.RequestId, Code: hagallpb.ErrorCode_ERROR_CODE_UNAUTHORIZED})]
//@   behaviour added:
//@     assumes decode_ok(msg) && S != nil && P != nil && req.AssetId != "" && E in S.entities && S.entities[E].ParticipantID == P.ID
//@     ensures {C16,C10,C01} result == nil && E in St.assetInstances && St.assetInstances[E].Id == nid && St.assetInstances[E].AssetId == req.AssetId && St.assetInstances[E].ParticipantId == P.ID && St.assetInstances[E].EntityId == E && fresh(St.assetInstances[E])
//@     ensures {C16,C01} forall e: uint32 :: e != E ==> ((e in St.assetInstances) <==> old(e in St.assetInstances)) && (e in St.assetInstances ==> St.assetInstances[e] == old(St.assetInstances[e]))
//@     emits {C16,C04,C02,C01} [send(respond, odalpb.AssetInstanceAddResponse{Type: odalpb.MsgType_MSG_TYPE_ODAL_ASSET_INSTANCE_ADD_RESPONSE, RequestId: req.RequestId, AssetInstanceId: nid}); Broadcast(S, P, odalpb.AssetInstanceAddBroadcast{Type: odalpb.MsgType_MSG_TYPE_ODAL_ASSET_INSTANCE_ADD_BROADCAST, OriginTimestamp: req.Timestamp, AssetInstance: odalpb.AssetInstance{Id: nid, AssetId: req.AssetId, ParticipantId: P.ID, EntityId: E}})]
//@   complete behaviours
//@   disjoint behaviours

//@ func (*modules/odal.Module).handleEntityDelete
//@   event
//@   modifies {C03} contents(m.state.assetInstances)
//@   allocates
//@   property C16, C06
//@   let id = decoded(msg, hagallpb.EntityDeleteRequest).EntityId
//@   let S = m.currentSession
//@   let St = m.state
//@   requires wfOdal(m) && m.currentSession != nil
//@   emits []
//@   ensures {C03} forall o: *State :: o != nil && !fresh(o) && old(m.state != nil && sepOdal(m.state, o)) ==> odalSame(o) && sepOdal(m.state, o)
//@   behaviour undecodable:
//@     assumes !decode_ok(msg)
//@     ensures result != nil && unchanged_world()
//@   behaviour still_there:
//@     assumes decode_ok(msg) && id in S.entities
//@     ensures result == nil && unchanged_world()
//@   behaviour cascade:
//@     assumes decode_ok(msg) && !(id in S.entities)
//@     ensures {C16,C06,C01} result == nil && forall e: uint32 :: ((e in St.assetInstances) <==> (old(e in St.assetInstances) && e != id)) && (e in St.assetInstances ==> St.assetInstances[e] == old(St.assetInstances[e]))
//@   complete behaviours
//@   disjoint behaviours

//@ func (*modules/odal.Module).handleParticipantJoin
//@   event
//@   modifies all ghost.*
//@   allocates
//@   property C16, C01
//@   requires wfOdal(m) && m.currentSession != nil && respond != nil
//@   ensures result == nil && unchanged_world()
//@   emits {C16,C01} [AssetInstances(m.state); send(respond, odalpb.State{Type: odalpb.MsgType_MSG_TYPE_ODAL_STATE})]
//@   ensures {C03} forall o: *State :: o != nil && !fresh(o) && old(m.state != nil && sepOdal(m.state, o)) ==> odalSame(o) && sepOdal(m.state, o)

//@ func (*modules/odal.Module).HandleDisconnect
//@   property C16, C06
//@   let S = m.currentSession
//@   let P = m.currentParticipant
//@   let St = m.state
//@   requires wfOdal(m)
//@   requires m.currentParticipant != nil ==> m.currentSession != nil
//@   ensures {C03} forall o: *State :: o != nil && !fresh(o) && old(m.state != nil && sepOdal(m.state, o)) ==> odalSame(o) && sepOdal(m.state, o)
//@   behaviour unbound:
//@     assumes P == nil
//@     ensures unchanged_world()
//@   behaviour bound:
//@     assumes P != nil
//@     ensures {C16,C06,C01} forall e: uint32 :: ((e in St.assetInstances) <==> (old(e in St.assetInstances) && !(e in P.entityIDs && (!(e in S.entities) || !S.entities[e].Persist)))) && (e in St.assetInstances ==> St.assetInstances[e] == old(St.assetInstances[e]))
//@   complete behaviours
//@   disjoint behaviours
//@   loop 1:
//@     invariant {C03} unchanged(m.state) && forall o: *State :: o != nil && !fresh(o) && old(m.state != nil && sepOdal(m.state, o)) ==> odalSame(o) && sepOdal(m.state, o)
//@     invariant forall k: uint32 :: k in V ==> k in P.entityIDs
//@     invariant forall e: uint32 :: ((e in St.assetInstances) <==> (old(e in St.assetInstances) && !(e in V && (!(e in S.entities) || !S.entities[e].Persist)))) && (e in St.assetInstances ==> St.assetInstances[e] == old(St.assetInstances[e]))

//@ func (*modules/odal.Module).HandleMsg
//@   property C16, C04
//@   let isJoin = msgtype(msg) == enum(hagallpb.MsgType_MSG_TYPE_PARTICIPANT_JOIN_REQUEST)
//@   let isDelete = msgtype(msg) == enum(hagallpb.MsgType_MSG_TYPE_ENTITY_DELETE_REQUEST)
//@   let isOwn = enumnum(msgtype(msg)) == odalpb.MsgType_MSG_TYPE_ODAL_ASSET_INSTANCE_ADD_REQUEST
//@   requires wfOdal(m) && respond != nil && m.currentSession != nil && msgtype(msg) != nil
//@   requires m.state.assetInstanceIDs.currentID < 4294967295
//@   behaviour join:
//@     assumes isJoin
//@     emits {C16,C04} [handleParticipantJoin(m, _, respond, msg)]
//@   behaviour delete:
//@     assumes !isJoin && isDelete
//@     emits {C16,C04} [handleEntityDelete(m, _, respond, msg)]
//@   behaviour own:
//@     assumes !isJoin && !isDelete && isOwn
//@     emits {C16,C04} [handleAssetInstanceAdd(m, _, respond, msg)]
//@   behaviour skip:
//@     assumes !isJoin && !isDelete && !isOwn
//@     ensures {C16,C04} istype(result, hwebsocket.ErrTypeMsgSkip) && unchanged_world()
//@     emits {C16,C04} []
//@   complete behaviours
//@   disjoint behaviours

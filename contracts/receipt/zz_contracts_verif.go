//go:build verif

// Contracts for package receipt, checked by /verif (hvc). This file contains no declarations:
// with the build tag off it is not compiled, with it on it adds nothing to the program.

package receipt

//@ spec fn wellFormed(p ncsclient.ReceiptPayload) bool = bytes_eq(hashbytes(keccak(bytesof(p.Receipt))), p.Hash) && ecrecover_ok(p.Hash, p.Signature)

//@ func (receipt.ReceiptHandler).VerifyPayload
//@   property C19
//@   event
//@   modifies nothing
//@   allocates
//@   ensures {C19} (result == nil) <==> wellFormed(payload)

//@ func (receipt.ReceiptHandler).ForwardToNCS
//@   property C19
//@   event
//@   modifies nothing
//@   allocates

//@ func (receipt.ReceiptHandler).ForwardToNCS$1
//@   property C19
//@   emits {C19} [PostReceipt(_, ctx, payload)]

//@ func (receipt.ReceiptHandler).HandleReceipts$1
//@   property C19
//@   goroutine receipts
//@   loop 1:
//@     emits {C19} [VerifyPayload(rh, $payload); when wellFormed($payload) =>> ForwardToNCS(rh, ctx, $payload)]

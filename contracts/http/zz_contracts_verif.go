//go:build verif

// Contracts for package http, checked by /verif (hvc). This file contains no declarations:
// with the build tag off it is not compiled, with it on it adds nothing to the program.

package http

// The handshake check: admitted (nil) exactly when the token carried by the request verifies.
//@ func http.VerifyAuthToken$1
//@   property C15
//@   requires r != nil && hdsClient != nil
//@   ensures {C15} (result == nil) <==> authok(hdsClient, usertoken(r))
//@   ensures {C15} unchanged_world()
//@   emits {C15} []

// The HTTP middleware: the wrapped handler runs exactly once iff the token verifies; otherwise 401 and nothing else.
//@ func http.VerifyAuthTokenHandler$1
//@   property C15
//@   requires r != nil && hdsClient != nil && w != nil && next != nil
//@   ensures {C15} unchanged_world()
//@   behaviour admitted:
//@     assumes authok(hdsClient, usertoken(r))
//@     emits {C15} [ServeHTTP(next, w, r)]
//@   behaviour rejected:
//@     assumes !authok(hdsClient, usertoken(r))
//@     emits {C15} [WriteHeader(w, 401)]
//@   complete behaviours
//@   disjoint behaviours

//go:build verif

// Contracts for package websocket, checked by /verif (hvc). This file contains no declarations:
// with the build tag off it is not compiled, with it on it adds nothing to the program.

package websocket

// Lock discipline (C09). The per-connection bookkeeping of the logging decorator is shared between
// the connection's handling goroutine and its receiver, sender and summary goroutines.

//@ type handlerWithLogs
//@   guarded_by counter : counterMutex
//@   guarded_by sessionID, sessionUUID, participantID : idsMutex
//@   lock_level counterMutex = 70
//@   lock_level idsMutex = 80

//@ type handlerWithMetrics
//@   immutable appKey, publicEndpoint : HandleConnect

//@ func (*websocket.handlerWithLogs).Receiver$1
//@   goroutine receiver

//@ func (*websocket.handlerWithLogs).Sender$1
//@   goroutine sender

//@ func (*websocket.handlerWithLogs).startSummaryWorker
//@   goroutine summary

//@ spec fn joined(h *RealtimeHandler) bool = h.currentSession != nil && h.currentParticipant != nil
// ---- C03: two sessions' object graphs are separate, and what the members of a session can observe ----
//@ spec fn sepSessions(a *models.Session, b *models.Session) bool = a != b
//@     && a.participants != b.participants && a.entities != b.entities && a.moduleStates != b.moduleStates && a.frameHandlers != b.frameHandlers
//@     && a.entityComponents != b.entityComponents && (a.entityIDs.reusableIDs != b.entityIDs.reusableIDs || a.entityIDs.reusableIDs == nil) && (a.participantIDs.reusableIDs != b.participantIDs.reusableIDs || a.participantIDs.reusableIDs == nil)
//@     && a.entityComponents.entityComponents != b.entityComponents.entityComponents && a.entityComponents.subscriptions != b.entityComponents.subscriptions
//@     && a.entityComponents.nameIndex != b.entityComponents.nameIndex && a.entityComponents.idIndex != b.entityComponents.idIndex
//@     && (a.entityComponents.ids.reusableIDs != b.entityComponents.ids.reusableIDs || a.entityComponents.ids.reusableIDs == nil)
//@     && (forall t1: uint32, t2: uint32 :: t1 in a.entityComponents.entityComponents && t2 in b.entityComponents.entityComponents ==> a.entityComponents.entityComponents[t1] != b.entityComponents.entityComponents[t2])
//@     && (forall t1: uint32, t2: uint32 :: t1 in a.entityComponents.subscriptions && t2 in b.entityComponents.subscriptions ==> a.entityComponents.subscriptions[t1] != b.entityComponents.subscriptions[t2])
//@     && (forall e1: uint32, e2: uint32 :: e1 in a.entities && e2 in b.entities ==> a.entities[e1] != b.entities[e2])
//@     && (forall p1: uint32, p2: uint32 :: p1 in a.participants && p2 in b.participants ==> a.participants[p1] != b.participants[p2] && (a.participants[p1].entityIDs != b.participants[p2].entityIDs || a.participants[p1].entityIDs == nil))
//@ spec fn obsSame(o *models.Session) bool = same_contents(o.participants, o.entities, o.moduleStates, o.entityIDs.reusableIDs, o.participantIDs.reusableIDs)
//@     && unchanged(o.entityIDs.currentID, o.participantIDs.currentID, o.ID, o.SessionUUID, o.entityComponents, o.entityComponents.ids.currentID)
//@     && unchanged(o.participants, o.entities, o.moduleStates, o.frameHandlers, o.entityIDs.reusableIDs, o.participantIDs.reusableIDs, o.entityComponents.entityComponents, o.entityComponents.subscriptions, o.entityComponents.nameIndex, o.entityComponents.idIndex, o.entityComponents.ids.reusableIDs)
//@     && same_contents(o.entityComponents.entityComponents, o.entityComponents.subscriptions, o.entityComponents.nameIndex, o.entityComponents.idIndex, o.entityComponents.ids.reusableIDs)
//@     && (forall t: uint32 :: t in o.entityComponents.entityComponents ==> same_contents(o.entityComponents.entityComponents[t]))
//@     && (forall t: uint32 :: t in o.entityComponents.subscriptions ==> same_contents(o.entityComponents.subscriptions[t]))
//@     && (forall e: uint32 :: e in o.entities ==> unchanged(o.entities[e].ParticipantID, o.entities[e].Flag, o.entities[e].Persist, o.entities[e].pose.PX, o.entities[e].pose.PY, o.entities[e].pose.PZ, o.entities[e].pose.RX, o.entities[e].pose.RY, o.entities[e].pose.RZ, o.entities[e].pose.RW))
//@     && (forall p: uint32 :: p in o.participants ==> same_contents(o.participants[p].entityIDs) && unchanged(o.participants[p].entityIDs, o.participants[p].ID, o.participants[p].Responder))
// What SESSION_STATE hands to a joiner (C01): exactly the members, exactly the entities with owner, flag
// and latest pose, exactly the stored components.
//@ spec fn snapParts(s *models.Session, ps []*hagallpb.Participant) bool = len(ps) == len(s.participants)
//@     && (forall j: int :: 0 <= j && j < len(ps) ==> ps[j] != nil && ps[j].Id in s.participants)
//@     && (forall k: uint32 :: k in s.participants ==> exists j: int :: 0 <= j && j < len(ps) && ps[j].Id == k)
//@ spec fn snapEnts(s *models.Session, es []*hagallpb.Entity) bool = len(es) == len(s.entities)
//@     && (forall k: uint32 :: k in s.entities ==> exists j: int :: 0 <= j && j < len(es) && es[j].Id == k)
//@     && (forall j: int :: 0 <= j && j < len(es) ==> es[j] != nil && es[j].Id in s.entities && es[j].ParticipantId == s.entities[es[j].Id].ParticipantID && es[j].Flag == s.entities[es[j].Id].Flag
//@          && es[j].Pose != nil && es[j].Pose.Px == s.entities[es[j].Id].pose.PX && es[j].Pose.Py == s.entities[es[j].Id].pose.PY && es[j].Pose.Pz == s.entities[es[j].Id].pose.PZ
//@          && es[j].Pose.Rx == s.entities[es[j].Id].pose.RX && es[j].Pose.Ry == s.entities[es[j].Id].pose.RY && es[j].Pose.Rz == s.entities[es[j].Id].pose.RZ && es[j].Pose.Rw == s.entities[es[j].Id].pose.RW)
//@ spec fn snapComps(c *models.EntityComponentStore, cs []*hagallpb.EntityComponent) bool =
//@     (forall j: int :: 0 <= j && j < len(cs) ==> cs[j] != nil && hasComp(c, cs[j].EntityComponentTypeId, cs[j].EntityId) && compAt(c, cs[j].EntityComponentTypeId, cs[j].EntityId) == cs[j])
//@     && (forall t: uint32, e: uint32 :: hasComp(c, t, e) ==> exists j: int :: 0 <= j && j < len(cs) && cs[j] == compAt(c, t, e))
//@ spec fn wfHandler(h *RealtimeHandler) bool = h.Sessions != nil
//@     && ((h.currentSession == nil) <==> (h.currentParticipant == nil))
//@     && (h.currentSession != nil ==> wfSession(h.currentSession) && member(h.currentSession, h.currentParticipant))

//@ func (*websocket.RealtimeHandler).HandleEntityDelete
//@   property C04
//@   let req = decoded(msg, hagallpb.EntityDeleteRequest)
//@   let S = h.currentSession
//@   let P = h.currentParticipant
//@   let id = decoded(msg, hagallpb.EntityDeleteRequest).EntityId
//@   requires wfHandler(h) && respond != nil
//@   ensures wfHandler(h)
//@   modifies {C03} contents(h.currentSession.entities), contents(h.currentParticipant.entityIDs), all contents(map[uint32]*hagallpb.EntityComponent @ models.EntityComponentStore.entityComponents[]), all ghost.*
//@   allocates
//@   ensures {C03} forall m: map[uint32]*hagallpb.EntityComponent @ models.EntityComponentStore.entityComponents[] :: joined(h) && (forall t: uint32 :: t in h.currentSession.entityComponents.entityComponents ==> h.currentSession.entityComponents.entityComponents[t] != m) ==> same_contents(m)
//@   ensures {C03} forall o: *models.Session :: o != nil && !fresh(o) && old(joined(h) && sepSessions(h.currentSession, o)) ==> obsSame(o) && sepSessions(h.currentSession, o)
//@   ensures {C03} forall o1: *models.Session, o2: *models.Session :: o1 != nil && o2 != nil && !fresh(o1) && !fresh(o2) && old(joined(h) && sepSessions(h.currentSession, o1) && sepSessions(h.currentSession, o2) && sepSessions(o1, o2)) ==> sepSessions(o1, o2)
//@   behaviour undecodable:
//@     assumes !decode_ok(msg)
//@     ensures {C04} result != nil && unchanged_world()
//@     emits {C04,C02,C01} []
//@   behaviour not_joined:
//@     assumes decode_ok(msg) && !joined(h)
//@     ensures {C04,C03} result != nil && unchanged_world()
//@     emits {C04,C02,C03,C01} []
//@   behaviour unknown:
//@     assumes decode_ok(msg) && joined(h) && !(id in S.entities)
//@     ensures {C04} result == nil && unchanged_world()
//@     emits {C04,C02,C01} [send(respond, hagallpb.ErrorResponse{Type: hagallpb.MsgType_MSG_TYPE_ERROR_RESPONSE, RequestId: req.RequestId, Code: hagallpb.ErrorCode_ERROR_CODE_NOT_FOUND})]
//@   behaviour foreign:
//@     assumes decode_ok(msg) && joined(h) && id in S.entities && S.entities[id].ParticipantID != P.ID
//@     ensures {C04,C05,C01} result == nil && unchanged_world()
//@     emits {C04,C05,C02,C01} [send(respond, hagallpb.ErrorResponse{Type: hagallpb.MsgType_MSG_TYPE_ERROR_RESPONSE, RequestId: req.RequestId, Code: hagallpb.ErrorCode_ERROR_CODE_UNAUTHORIZED})]
//@   behaviour deleted:
//@     assumes decode_ok(msg) && joined(h) && id in S.entities && S.entities[id].ParticipantID == P.ID
//@     ensures {C04} result == nil
//@     ensures {C12,C06,C01} forall t: uint32, e: uint32 :: hasComp(S.entityComponents, t, e) <==> (old(hasComp(S.entityComponents, t, e)) && e != id)
//@     ensures {C05,C01} forall e: uint32 :: (e in S.entities) <==> (old(e in S.entities) && e != id)
//@     emits {C04,C02,C01} [send(respond, hagallpb.EntityDeleteResponse{Type: hagallpb.MsgType_MSG_TYPE_ENTITY_DELETE_RESPONSE, RequestId: req.RequestId}); when !flag(h.FeatureFlags, featureflag.FlagDisableEntityDeleteBroadcast) =>> Broadcast(S, P, hagallpb.EntityDeleteBroadcast{Type: hagallpb.MsgType_MSG_TYPE_ENTITY_DELETE_BROADCAST, OriginTimestamp: req.Timestamp, EntityId: id})]
//@   complete behaviours
//@   disjoint behaviours

//@ func (*websocket.RealtimeHandler).HandlePing
//@   property C04
//@   let req = decoded(msg, hagallpb.Request)
//@   requires respond != nil
//@   modifies {C03} all ghost.*
//@   allocates
//@   ensures {C03} forall o: *models.Session :: o != nil && !fresh(o) && old(joined(h) && sepSessions(h.currentSession, o)) ==> obsSame(o) && sepSessions(h.currentSession, o)
//@   ensures {C03} forall o1: *models.Session, o2: *models.Session :: o1 != nil && o2 != nil && !fresh(o1) && !fresh(o2) && old(joined(h) && sepSessions(h.currentSession, o1) && sepSessions(h.currentSession, o2) && sepSessions(o1, o2)) ==> sepSessions(o1, o2)
//@   behaviour undecodable:
//@     assumes !decode_ok(msg)
//@     ensures result != nil && unchanged_world()
//@     emits []
//@   behaviour answered:
//@     assumes decode_ok(msg)
//@     ensures result == nil && unchanged_world()
//@     emits [send(respond, hagallpb.Response{Type: hagallpb.MsgType_MSG_TYPE_PING_RESPONSE, RequestId: req.RequestId})]
//@   complete behaviours
//@   disjoint behaviours

//@ func (*websocket.RealtimeHandler).HandleEntityAdd
//@   property C04
//@   let req = decoded(msg, hagallpb.EntityAddRequest)
//@   let S = h.currentSession
//@   let P = h.currentParticipant
//@   let eid = h.currentSession.entityIDs.currentID + 1
//@   requires wfHandler(h) && respond != nil
//@   requires joined(h) ==> h.currentSession.entityIDs.currentID < 4294967295
//@   ensures wfHandler(h)
//@   modifies {C03} h.currentSession.entityIDs.currentID, contents(h.currentSession.entityIDs.reusableIDs), contents(h.currentSession.entities), h.currentParticipant.entityIDs, contents(h.currentParticipant.entityIDs), all ghost.*
//@   allocates
//@   ensures {C03} forall o: *models.Session :: o != nil && !fresh(o) && old(joined(h) && sepSessions(h.currentSession, o)) ==> obsSame(o) && sepSessions(h.currentSession, o)
//@   ensures {C03} forall o1: *models.Session, o2: *models.Session :: o1 != nil && o2 != nil && !fresh(o1) && !fresh(o2) && old(joined(h) && sepSessions(h.currentSession, o1) && sepSessions(h.currentSession, o2) && sepSessions(o1, o2)) ==> sepSessions(o1, o2)
//@   behaviour undecodable:
//@     assumes !decode_ok(msg)
//@     ensures {C04} result != nil && unchanged_world()
//@     emits {C04,C02,C01} []
//@   behaviour not_joined:
//@     assumes decode_ok(msg) && !joined(h)
//@     ensures {C04,C03} result != nil && unchanged_world()
//@     emits {C04,C02,C03,C01} []
//@   behaviour added:
//@     assumes decode_ok(msg) && joined(h)
//@     ensures {C04} result == nil
//@     ensures {C10,C01} !old(eid in S.entities) && eid in S.entities && S.entities[eid].ID == eid
//@     ensures {C05,C01,C06} S.entities[eid].ParticipantID == P.ID && S.entities[eid].Persist == req.Persist && S.entities[eid].Flag == req.Flag
//@     ensures {C11,C01} req.Pose != nil ==> S.entities[eid].pose.PX == req.Pose.Px && S.entities[eid].pose.PY == req.Pose.Py && S.entities[eid].pose.PZ == req.Pose.Pz && S.entities[eid].pose.RX == req.Pose.Rx && S.entities[eid].pose.RY == req.Pose.Ry && S.entities[eid].pose.RZ == req.Pose.Rz && S.entities[eid].pose.RW == req.Pose.Rw
//@     ensures {C05,C01} forall e: uint32 :: e != eid ==> ((e in S.entities) <==> old(e in S.entities)) && (e in S.entities ==> S.entities[e] == old(S.entities[e]))
//@     ensures {C06,C01} eid in P.entityIDs
//@     ensures {C12,C01} forall t: uint32, e: uint32 :: hasComp(S.entityComponents, t, e) <==> old(hasComp(S.entityComponents, t, e))
//@     emits {C04,C02,C01} [send(respond, hagallpb.EntityAddResponse{Type: hagallpb.MsgType_MSG_TYPE_ENTITY_ADD_RESPONSE, RequestId: req.RequestId, EntityId: eid}); when !flag(h.FeatureFlags, featureflag.FlagDisableEntityAddBroadcast) =>> Broadcast(S, P, hagallpb.EntityAddBroadcast{Type: hagallpb.MsgType_MSG_TYPE_ENTITY_ADD_BROADCAST, OriginTimestamp: req.Timestamp, Entity: hagallpb.Entity{Id: eid, ParticipantId: P.ID, Flag: req.Flag}})]
//@   complete behaviours
//@   disjoint behaviours

//@ func (*websocket.RealtimeHandler).HandleEntityUpdatePose
//@   property C11
//@   let req = decoded(msg, hagallpb.EntityUpdatePose)
//@   let S = h.currentSession
//@   let P = h.currentParticipant
//@   let id = decoded(msg, hagallpb.EntityUpdatePose).EntityId
//@   requires wfHandler(h)
//@   ensures wfHandler(h)
//@   modifies {C03} h.currentSession.entities[decoded(msg, hagallpb.EntityUpdatePose).EntityId].pose, all ghost.*
//@   allocates
//@   ensures {C03} forall o: *models.Session :: o != nil && !fresh(o) && old(joined(h) && sepSessions(h.currentSession, o)) ==> obsSame(o) && sepSessions(h.currentSession, o)
//@   ensures {C03} forall o1: *models.Session, o2: *models.Session :: o1 != nil && o2 != nil && !fresh(o1) && !fresh(o2) && old(joined(h) && sepSessions(h.currentSession, o1) && sepSessions(h.currentSession, o2) && sepSessions(o1, o2)) ==> sepSessions(o1, o2)
//@   behaviour undecodable:
//@     assumes !decode_ok(msg)
//@     ensures result != nil && unchanged_world()
//@     emits {C11,C02,C01} []
//@   behaviour not_joined:
//@     assumes decode_ok(msg) && !joined(h)
//@     ensures {C04,C03} result != nil && unchanged_world()
//@     emits {C04,C02,C03,C01} []
//@   behaviour unknown:
//@     assumes decode_ok(msg) && joined(h) && !(id in S.entities)
//@     ensures {C11,C01} result == nil && unchanged_world()
//@     emits {C11,C02,C01} []
//@   behaviour foreign:
//@     assumes decode_ok(msg) && joined(h) && id in S.entities && S.entities[id].ParticipantID != P.ID
//@     ensures {C11,C05,C01} result == nil && unchanged_world()
//@     emits {C11,C05,C02,C01} []
//@   behaviour no_pose:
//@     assumes decode_ok(msg) && joined(h) && id in S.entities && S.entities[id].ParticipantID == P.ID && req.Pose == nil
//@     ensures {C11,C01} result == nil && unchanged_world()
//@     emits {C11,C02,C01} []
//@   behaviour moved:
//@     assumes decode_ok(msg) && joined(h) && id in S.entities && S.entities[id].ParticipantID == P.ID && req.Pose != nil
//@     ensures {C11,C01} result == nil
//@     ensures {C11,C01} S.entities[id].pose.PX == req.Pose.Px && S.entities[id].pose.PY == req.Pose.Py && S.entities[id].pose.PZ == req.Pose.Pz && S.entities[id].pose.RX == req.Pose.Rx && S.entities[id].pose.RY == req.Pose.Ry && S.entities[id].pose.RZ == req.Pose.Rz && S.entities[id].pose.RW == req.Pose.Rw
//@     ensures {C11,C01} unchanged_except("models.Entity.pose")
//@     emits {C11,C02,C01} [when !flag(h.FeatureFlags, featureflag.FlagDisableEntityUpdatePoseBroadcast) =>> Broadcast(S, P, hagallpb.EntityUpdatePoseBroadcast{Type: hagallpb.MsgType_MSG_TYPE_ENTITY_UPDATE_POSE_BROADCAST, OriginTimestamp: req.Timestamp, EntityId: id, Pose: hagallpb.Pose{Px: req.Pose.Px, Py: req.Pose.Py, Pz: req.Pose.Pz, Rx: req.Pose.Rx, Ry: req.Pose.Ry, Rz: req.Pose.Rz, Rw: req.Pose.Rw}})]
//@   complete behaviours
//@   disjoint behaviours

//@ func (*websocket.RealtimeHandler).HandleCustomMessage
//@   property C14
//@   let req = decoded(msg, hagallpb.CustomMessage)
//@   let S = h.currentSession
//@   let P = h.currentParticipant
//@   requires wfHandler(h) && respond != nil
//@   ensures wfHandler(h)
//@   ensures unchanged_world()
//@   modifies {C03} all ghost.*
//@   allocates
//@   ensures {C03} forall o: *models.Session :: o != nil && !fresh(o) && old(joined(h) && sepSessions(h.currentSession, o)) ==> obsSame(o) && sepSessions(h.currentSession, o)
//@   ensures {C03} forall o1: *models.Session, o2: *models.Session :: o1 != nil && o2 != nil && !fresh(o1) && !fresh(o2) && old(joined(h) && sepSessions(h.currentSession, o1) && sepSessions(h.currentSession, o2) && sepSessions(o1, o2)) ==> sepSessions(o1, o2)
//@   behaviour undecodable:
//@     assumes !decode_ok(msg)
//@     ensures result != nil
//@     emits {C14,C02} []
//@   behaviour not_joined:
//@     assumes decode_ok(msg) && !joined(h)
//@     ensures {C04,C03} result != nil
//@     emits {C04,C02,C03} []
//@   behaviour too_large:
//@     assumes decode_ok(msg) && joined(h) && len(req.Body) > 10240
//@     ensures {C14} result == nil
//@     emits {C14,C02} [send(respond, hagallpb.ErrorResponse{Type: hagallpb.MsgType_MSG_TYPE_ERROR_RESPONSE, Code: hagallpb.ErrorCode_ERROR_CODE_TOO_LARGE})]
//@   behaviour targeted:
//@     assumes decode_ok(msg) && joined(h) && len(req.Body) <= 10240 && len(req.ParticipantIds) != 0
//@     ensures {C14} result == nil
//@     emits {C14,C02} [when !flag(h.FeatureFlags, featureflag.FlagDisableCustomMessageBroadcast) =>> BroadcastTo(S, P, hagallpb.CustomMessageBroadcast{Type: hagallpb.MsgType_MSG_TYPE_CUSTOM_MESSAGE_BROADCAST, OriginTimestamp: req.Timestamp, ParticipantId: P.ID, Body: req.Body}, req.ParticipantIds)]
//@   behaviour untargeted:
//@     assumes decode_ok(msg) && joined(h) && len(req.Body) <= 10240 && len(req.ParticipantIds) == 0
//@     ensures {C14} result == nil
//@     emits {C14,C02} [when !flag(h.FeatureFlags, featureflag.FlagDisableCustomMessageBroadcast) =>> Broadcast(S, P, hagallpb.CustomMessageBroadcast{Type: hagallpb.MsgType_MSG_TYPE_CUSTOM_MESSAGE_BROADCAST, OriginTimestamp: req.Timestamp, ParticipantId: P.ID, Body: req.Body})]
//@   complete behaviours
//@   disjoint behaviours

// ---------------------------------------------------------------------------------------------
// Entity component requests
// ---------------------------------------------------------------------------------------------

//@ func (*websocket.RealtimeHandler).HandleEntityComponentTypeAdd
//@   property C04, C12
//@   let req = decoded(msg, hagallpb.EntityComponentTypeAddRequest)
//@   let S = h.currentSession
//@   let C = h.currentSession.entityComponents
//@   requires wfHandler(h) && respond != nil
//@   requires joined(h) ==> h.currentSession.entityComponents.ids.currentID < 4294967295
//@   ensures wfHandler(h)
//@   modifies {C03} h.currentSession.entityComponents.ids.currentID, contents(h.currentSession.entityComponents.ids.reusableIDs), contents(h.currentSession.entityComponents.nameIndex), contents(h.currentSession.entityComponents.idIndex), all ghost.*
//@   allocates
//@   ensures {C03} forall o: *models.Session :: o != nil && !fresh(o) && old(joined(h) && sepSessions(h.currentSession, o)) ==> obsSame(o) && sepSessions(h.currentSession, o)
//@   ensures {C03} forall o1: *models.Session, o2: *models.Session :: o1 != nil && o2 != nil && !fresh(o1) && !fresh(o2) && old(joined(h) && sepSessions(h.currentSession, o1) && sepSessions(h.currentSession, o2) && sepSessions(o1, o2)) ==> sepSessions(o1, o2)
//@   behaviour undecodable:
//@     assumes !decode_ok(msg)
//@     ensures result != nil && unchanged_world()
//@     emits []
//@   behaviour empty_name:
//@     assumes decode_ok(msg) && req.EntityComponentTypeName == ""
//@     ensures result == nil && unchanged_world()
//@     emits [send(respond, hagallpb.ErrorResponse{Type: hagallpb.MsgType_MSG_TYPE_ERROR_RESPONSE, RequestId: req.RequestId, Code: hagallpb.ErrorCode_ERROR_CODE_BAD_REQUEST})]
//@   behaviour not_joined:
//@     assumes decode_ok(msg) && req.EntityComponentTypeName != "" && !joined(h)
//@     ensures {C04,C03} result != nil && unchanged_world()
//@     emits {C04,C03} []
//@   behaviour known:
//@     assumes decode_ok(msg) && req.EntityComponentTypeName != "" && joined(h) && req.EntityComponentTypeName in C.idIndex
//@     ensures {C12} result == nil && unchanged_world()
//@     emits {C12,C04} [send(respond, hagallpb.EntityComponentTypeAddResponse{Type: hagallpb.MsgType_MSG_TYPE_ENTITY_COMPONENT_TYPE_ADD_RESPONSE, RequestId: req.RequestId, EntityComponentTypeId: C.idIndex[req.EntityComponentTypeName]})]
//@   behaviour registered:
//@     assumes decode_ok(msg) && req.EntityComponentTypeName != "" && joined(h) && !(req.EntityComponentTypeName in C.idIndex)
//@     ensures {C12,C10} result == nil && req.EntityComponentTypeName in C.idIndex && C.idIndex[req.EntityComponentTypeName] == old(C.ids.currentID) + 1 && C.nameIndex[old(C.ids.currentID) + 1] == req.EntityComponentTypeName
//@     ensures {C12} forall t: uint32, e: uint32 :: hasComp(C, t, e) <==> old(hasComp(C, t, e))
//@     emits {C12,C04} [send(respond, hagallpb.EntityComponentTypeAddResponse{Type: hagallpb.MsgType_MSG_TYPE_ENTITY_COMPONENT_TYPE_ADD_RESPONSE, RequestId: req.RequestId, EntityComponentTypeId: old(C.ids.currentID) + 1})]
//@   complete behaviours
//@   disjoint behaviours

//@ func (*websocket.RealtimeHandler).HandleEntityComponentGetName
//@   property C04, C12
//@   let req = decoded(msg, hagallpb.EntityComponentTypeGetNameRequest)
//@   let C = h.currentSession.entityComponents
//@   let T = decoded(msg, hagallpb.EntityComponentTypeGetNameRequest).EntityComponentTypeId
//@   requires wfHandler(h) && respond != nil
//@   ensures unchanged_world()
//@   modifies {C03} all ghost.*
//@   allocates
//@   ensures {C03} forall o: *models.Session :: o != nil && !fresh(o) && old(joined(h) && sepSessions(h.currentSession, o)) ==> obsSame(o) && sepSessions(h.currentSession, o)
//@   ensures {C03} forall o1: *models.Session, o2: *models.Session :: o1 != nil && o2 != nil && !fresh(o1) && !fresh(o2) && old(joined(h) && sepSessions(h.currentSession, o1) && sepSessions(h.currentSession, o2) && sepSessions(o1, o2)) ==> sepSessions(o1, o2)
//@   behaviour undecodable:
//@     assumes !decode_ok(msg)
//@     ensures result != nil
//@     emits []
//@   behaviour zero_id:
//@     assumes decode_ok(msg) && T == 0
//@     ensures result == nil
//@     emits [send(respond, hagallpb.ErrorResponse{Type: hagallpb.MsgType_MSG_TYPE_ERROR_RESPONSE, RequestId: req.RequestId, Code: hagallpb.ErrorCode_ERROR_CODE_BAD_REQUEST})]
//@   behaviour not_joined:
//@     assumes decode_ok(msg) && T != 0 && !joined(h)
//@     ensures {C04,C03} result != nil
//@     emits {C04,C03} []
//@   behaviour unknown:
//@     assumes decode_ok(msg) && T != 0 && joined(h) && !(T in C.nameIndex)
//@     ensures result == nil
//@     emits [send(respond, hagallpb.ErrorResponse{Type: hagallpb.MsgType_MSG_TYPE_ERROR_RESPONSE, RequestId: req.RequestId, Code: hagallpb.ErrorCode_ERROR_CODE_NOT_FOUND})]
//@   behaviour found:
//@     assumes decode_ok(msg) && T != 0 && joined(h) && T in C.nameIndex
//@     ensures result == nil
//@     emits [send(respond, hagallpb.EntityComponentTypeGetNameResponse{Type: hagallpb.MsgType_MSG_TYPE_ENTITY_COMPONENT_TYPE_GET_NAME_RESPONSE, RequestId: req.RequestId, EntityComponentTypeName: C.nameIndex[T]})]
//@   complete behaviours
//@   disjoint behaviours

//@ func (*websocket.RealtimeHandler).HandleEntityComponentGetID
//@   property C04, C12
//@   let req = decoded(msg, hagallpb.EntityComponentTypeGetIdRequest)
//@   let C = h.currentSession.entityComponents
//@   let N = decoded(msg, hagallpb.EntityComponentTypeGetIdRequest).EntityComponentTypeName
//@   requires wfHandler(h) && respond != nil
//@   ensures unchanged_world()
//@   modifies {C03} all ghost.*
//@   allocates
//@   ensures {C03} forall o: *models.Session :: o != nil && !fresh(o) && old(joined(h) && sepSessions(h.currentSession, o)) ==> obsSame(o) && sepSessions(h.currentSession, o)
//@   ensures {C03} forall o1: *models.Session, o2: *models.Session :: o1 != nil && o2 != nil && !fresh(o1) && !fresh(o2) && old(joined(h) && sepSessions(h.currentSession, o1) && sepSessions(h.currentSession, o2) && sepSessions(o1, o2)) ==> sepSessions(o1, o2)
//@   behaviour undecodable:
//@     assumes !decode_ok(msg)
//@     ensures result != nil
//@     emits []
//@   behaviour empty_name:
//@     assumes decode_ok(msg) && N == ""
//@     ensures result == nil
//@     emits [send(respond, hagallpb.ErrorResponse{Type: hagallpb.MsgType_MSG_TYPE_ERROR_RESPONSE, RequestId: req.RequestId, Code: hagallpb.ErrorCode_ERROR_CODE_BAD_REQUEST})]
//@   behaviour not_joined:
//@     assumes decode_ok(msg) && N != "" && !joined(h)
//@     ensures {C04,C03} result != nil
//@     emits {C04,C03} []
//@   behaviour unknown:
//@     assumes decode_ok(msg) && N != "" && joined(h) && !(N in C.idIndex)
//@     ensures result == nil
//@     emits [send(respond, hagallpb.ErrorResponse{Type: hagallpb.MsgType_MSG_TYPE_ERROR_RESPONSE, RequestId: req.RequestId, Code: hagallpb.ErrorCode_ERROR_CODE_NOT_FOUND})]
//@   behaviour found:
//@     assumes decode_ok(msg) && N != "" && joined(h) && N in C.idIndex
//@     ensures result == nil
//@     emits [send(respond, hagallpb.EntityComponentTypeGetIdResponse{Type: hagallpb.MsgType_MSG_TYPE_ENTITY_COMPONENT_TYPE_GET_ID_RESPONSE, RequestId: req.RequestId, EntityComponentTypeId: C.idIndex[N]})]
//@   complete behaviours
//@   disjoint behaviours

//@ func (*websocket.RealtimeHandler).HandleEntityComponentAdd
//@   property C04, C12
//@   let req = decoded(msg, hagallpb.EntityComponentAddRequest)
//@   let S = h.currentSession
//@   let P = h.currentParticipant
//@   let C = h.currentSession.entityComponents
//@   let T = decoded(msg, hagallpb.EntityComponentAddRequest).EntityComponentTypeId
//@   let E = decoded(msg, hagallpb.EntityComponentAddRequest).EntityId
//@   requires wfHandler(h) && respond != nil
//@   ensures wfHandler(h)
//@   modifies {C03} contents(h.currentSession.entityComponents.entityComponents), contents(h.currentSession.entityComponents.entityComponents[decoded(msg, hagallpb.EntityComponentAddRequest).EntityComponentTypeId]), all ghost.*
//@   allocates
//@   ensures {C03} forall o: *models.Session :: o != nil && !fresh(o) && old(joined(h) && sepSessions(h.currentSession, o)) ==> obsSame(o) && sepSessions(h.currentSession, o)
//@   ensures {C03} forall o1: *models.Session, o2: *models.Session :: o1 != nil && o2 != nil && !fresh(o1) && !fresh(o2) && old(joined(h) && sepSessions(h.currentSession, o1) && sepSessions(h.currentSession, o2) && sepSessions(o1, o2)) ==> sepSessions(o1, o2)
//@   behaviour undecodable:
//@     assumes !decode_ok(msg)
//@     ensures result != nil && unchanged_world()
//@     emits []
//@   behaviour zero_ids:
//@     assumes decode_ok(msg) && (T == 0 || E == 0)
//@     ensures result == nil && unchanged_world()
//@     emits [send(respond, hagallpb.ErrorResponse{Type: hagallpb.MsgType_MSG_TYPE_ERROR_RESPONSE, RequestId: req.RequestId, Code: hagallpb.ErrorCode_ERROR_CODE_BAD_REQUEST})]
//@   behaviour not_joined:
//@     assumes decode_ok(msg) && T != 0 && E != 0 && !joined(h)
//@     ensures {C04,C03} result != nil && unchanged_world()
//@     emits {C04,C03} []
//@   behaviour no_entity:
//@     assumes decode_ok(msg) && T != 0 && E != 0 && joined(h) && !(E in S.entities)
//@     ensures {C12,C01} result == nil && unchanged_world()
//@     emits {C12,C04,C01} [send(respond, hagallpb.ErrorResponse{Type: hagallpb.MsgType_MSG_TYPE_ERROR_RESPONSE, RequestId: req.RequestId, Code: hagallpb.ErrorCode_ERROR_CODE_NOT_FOUND})]
//@   behaviour unregistered:
//@     assumes decode_ok(msg) && T != 0 && E != 0 && joined(h) && E in S.entities && !(T in C.nameIndex)
//@     ensures {C12,C01} result == nil && forall t: uint32, e: uint32 :: hasComp(C, t, e) <==> old(hasComp(C, t, e))
//@     emits {C12,C04,C01} [send(respond, hagallpb.ErrorResponse{Type: hagallpb.MsgType_MSG_TYPE_ERROR_RESPONSE, RequestId: req.RequestId, Code: hagallpb.ErrorCode_ERROR_CODE_NOT_FOUND})]
//@   behaviour duplicate:
//@     assumes decode_ok(msg) && T != 0 && E != 0 && joined(h) && E in S.entities && T in C.nameIndex && hasComp(C, T, E)
//@     ensures {C12,C01} result == nil && forall t: uint32, e: uint32 :: (hasComp(C, t, e) <==> old(hasComp(C, t, e))) && (hasComp(C, t, e) ==> compAt(C, t, e) == old(compAt(C, t, e)))
//@     emits {C12,C04,C01} [send(respond, hagallpb.ErrorResponse{Type: hagallpb.MsgType_MSG_TYPE_ERROR_RESPONSE, RequestId: req.RequestId, Code: hagallpb.ErrorCode_ERROR_CODE_CONFLICT})]
//@   behaviour added:
//@     assumes decode_ok(msg) && T != 0 && E != 0 && joined(h) && E in S.entities && T in C.nameIndex && !hasComp(C, T, E)
//@     ensures {C12,C01} result == nil && hasComp(C, T, E) && compAt(C, T, E).Data == req.Data
//@     ensures {C12,C01} forall t: uint32, e: uint32 :: (t != T || e != E) ==> (hasComp(C, t, e) <==> old(hasComp(C, t, e))) && (hasComp(C, t, e) ==> compAt(C, t, e) == old(compAt(C, t, e)))
//@     emits {C12,C13,C04,C01} [send(respond, hagallpb.EntityComponentAddResponse{Type: hagallpb.MsgType_MSG_TYPE_ENTITY_COMPONENT_ADD_RESPONSE, RequestId: req.RequestId}); when !flag(h.FeatureFlags, featureflag.FlagDisableEntityComponentAddBroadcast) && subscriberCount(C, T) > 0 =>> Broadcast(S, P, hagallpb.EntityComponentAddBroadcast{Type: hagallpb.MsgType_MSG_TYPE_ENTITY_COMPONENT_ADD_BROADCAST, OriginTimestamp: req.Timestamp, EntityComponent: hagallpb.EntityComponent{EntityComponentTypeId: T, EntityId: E, Data: req.Data}})]
//@   complete behaviours
//@   disjoint behaviours

//@ func (*websocket.RealtimeHandler).HandleEntityComponentDelete
//@   property C04, C12
//@   let req = decoded(msg, hagallpb.EntityComponentDeleteRequest)
//@   let S = h.currentSession
//@   let P = h.currentParticipant
//@   let C = h.currentSession.entityComponents
//@   let T = decoded(msg, hagallpb.EntityComponentDeleteRequest).EntityComponentTypeId
//@   let E = decoded(msg, hagallpb.EntityComponentDeleteRequest).EntityId
//@   requires wfHandler(h) && respond != nil
//@   ensures wfHandler(h)
//@   modifies {C03} contents(h.currentSession.entityComponents.entityComponents[decoded(msg, hagallpb.EntityComponentDeleteRequest).EntityComponentTypeId]), all ghost.*
//@   allocates
//@   ensures {C03} forall o: *models.Session :: o != nil && !fresh(o) && old(joined(h) && sepSessions(h.currentSession, o)) ==> obsSame(o) && sepSessions(h.currentSession, o)
//@   ensures {C03} forall o1: *models.Session, o2: *models.Session :: o1 != nil && o2 != nil && !fresh(o1) && !fresh(o2) && old(joined(h) && sepSessions(h.currentSession, o1) && sepSessions(h.currentSession, o2) && sepSessions(o1, o2)) ==> sepSessions(o1, o2)
//@   behaviour undecodable:
//@     assumes !decode_ok(msg)
//@     ensures result != nil && unchanged_world()
//@     emits []
//@   behaviour zero_ids:
//@     assumes decode_ok(msg) && (T == 0 || E == 0)
//@     ensures result == nil && unchanged_world()
//@     emits [send(respond, hagallpb.ErrorResponse{Type: hagallpb.MsgType_MSG_TYPE_ERROR_RESPONSE, RequestId: req.RequestId, Code: hagallpb.ErrorCode_ERROR_CODE_BAD_REQUEST})]
//@   behaviour not_joined:
//@     assumes decode_ok(msg) && T != 0 && E != 0 && !joined(h)
//@     ensures {C04,C03} result != nil && unchanged_world()
//@     emits {C04,C03} []
//@   behaviour no_entity:
//@     assumes decode_ok(msg) && T != 0 && E != 0 && joined(h) && !(E in S.entities)
//@     ensures {C12,C01} result == nil && unchanged_world()
//@     emits {C12,C04,C01} [send(respond, hagallpb.ErrorResponse{Type: hagallpb.MsgType_MSG_TYPE_ERROR_RESPONSE, RequestId: req.RequestId, Code: hagallpb.ErrorCode_ERROR_CODE_NOT_FOUND})]
//@   behaviour absent:
//@     assumes decode_ok(msg) && T != 0 && E != 0 && joined(h) && E in S.entities && !hasComp(C, T, E)
//@     ensures {C12,C01} result == nil && forall t: uint32, e: uint32 :: (hasComp(C, t, e) <==> old(hasComp(C, t, e))) && (hasComp(C, t, e) ==> compAt(C, t, e) == old(compAt(C, t, e)))
//@     emits {C12,C04,C01} [send(respond, hagallpb.ErrorResponse{Type: hagallpb.MsgType_MSG_TYPE_ERROR_RESPONSE, RequestId: req.RequestId, Code: hagallpb.ErrorCode_ERROR_CODE_NOT_FOUND})]
//@   behaviour deleted:
//@     assumes decode_ok(msg) && T != 0 && E != 0 && joined(h) && E in S.entities && hasComp(C, T, E)
//@     ensures {C12,C01} result == nil && !hasComp(C, T, E)
//@     ensures {C12,C01} forall t: uint32, e: uint32 :: (t != T || e != E) ==> (hasComp(C, t, e) <==> old(hasComp(C, t, e))) && (hasComp(C, t, e) ==> compAt(C, t, e) == old(compAt(C, t, e)))
//@     emits {C12,C13,C04,C01} [when !flag(h.FeatureFlags, featureflag.FlagDisableEntityComponentDeleteBroadcast) && subscriberCount(C, T) > 0 =>> Broadcast(S, P, hagallpb.EntityComponentDeleteBroadcast{Type: hagallpb.MsgType_MSG_TYPE_ENTITY_COMPONENT_DELETE_BROADCAST, OriginTimestamp: req.Timestamp, EntityComponent: hagallpb.EntityComponent{EntityComponentTypeId: T, EntityId: E}}); send(respond, hagallpb.EntityComponentDeleteResponse{Type: hagallpb.MsgType_MSG_TYPE_ENTITY_COMPONENT_DELETE_RESPONSE, RequestId: req.RequestId})]
//@   complete behaviours
//@   disjoint behaviours

//@ func (*websocket.RealtimeHandler).HandleEntityComponentUpdate
//@   property C12, C13
//@   let req = decoded(msg, hagallpb.EntityComponentUpdate)
//@   let S = h.currentSession
//@   let P = h.currentParticipant
//@   let C = h.currentSession.entityComponents
//@   let T = decoded(msg, hagallpb.EntityComponentUpdate).EntityComponentTypeId
//@   let E = decoded(msg, hagallpb.EntityComponentUpdate).EntityId
//@   requires wfHandler(h)
//@   ensures wfHandler(h)
//@   modifies {C03} contents(h.currentSession.entityComponents.entityComponents[decoded(msg, hagallpb.EntityComponentUpdate).EntityComponentTypeId]), all ghost.*
//@   allocates
//@   ensures {C03} forall o: *models.Session :: o != nil && !fresh(o) && old(joined(h) && sepSessions(h.currentSession, o)) ==> obsSame(o) && sepSessions(h.currentSession, o)
//@   ensures {C03} forall o1: *models.Session, o2: *models.Session :: o1 != nil && o2 != nil && !fresh(o1) && !fresh(o2) && old(joined(h) && sepSessions(h.currentSession, o1) && sepSessions(h.currentSession, o2) && sepSessions(o1, o2)) ==> sepSessions(o1, o2)
//@   behaviour undecodable:
//@     assumes !decode_ok(msg)
//@     ensures result != nil && unchanged_world()
//@     emits []
//@   behaviour zero_ids:
//@     assumes decode_ok(msg) && (T == 0 || E == 0)
//@     ensures result == nil && unchanged_world()
//@     emits []
//@   behaviour not_joined:
//@     assumes decode_ok(msg) && T != 0 && E != 0 && !joined(h)
//@     ensures {C04,C03} result != nil && unchanged_world()
//@     emits {C04,C03} []
//@   behaviour no_entity:
//@     assumes decode_ok(msg) && T != 0 && E != 0 && joined(h) && !(E in S.entities)
//@     ensures {C12,C01} result == nil && unchanged_world()
//@     emits {C12,C13,C01} []
//@   behaviour absent:
//@     assumes decode_ok(msg) && T != 0 && E != 0 && joined(h) && E in S.entities && !hasComp(C, T, E)
//@     ensures {C12,C01} result == nil && forall t: uint32, e: uint32 :: (hasComp(C, t, e) <==> old(hasComp(C, t, e))) && (hasComp(C, t, e) ==> compAt(C, t, e) == old(compAt(C, t, e)))
//@     emits {C12,C13,C01} []
//@   behaviour present:
//@     assumes decode_ok(msg) && T != 0 && E != 0 && joined(h) && E in S.entities && hasComp(C, T, E)
//@     ensures {C12,C01} result == nil && hasComp(C, T, E) && compAt(C, T, E).Data == req.Data
//@     ensures {C12,C01} forall t: uint32, e: uint32 :: (hasComp(C, t, e) <==> old(hasComp(C, t, e))) && ((t != T || e != E) && hasComp(C, t, e) ==> compAt(C, t, e) == old(compAt(C, t, e)))
//@     emits {C12,C13,C01} [when !flag(h.FeatureFlags, featureflag.FlagDisableEntityComponentUpdateBroadcast) && subscriberCount(C, T) > 0 =>> BroadcastTo(S, P, hagallpb.EntityComponentUpdateBroadcast{Type: hagallpb.MsgType_MSG_TYPE_ENTITY_COMPONENT_UPDATE_BROADCAST, OriginTimestamp: req.Timestamp, EntityComponent: hagallpb.EntityComponent{EntityComponentTypeId: T, EntityId: E, Data: req.Data}}, _)]
//@   complete behaviours
//@   disjoint behaviours

//@ func (*websocket.RealtimeHandler).HandleEntityComponentList
//@   property C04, C12
//@   let req = decoded(msg, hagallpb.EntityComponentListRequest)
//@   let T = decoded(msg, hagallpb.EntityComponentListRequest).EntityComponentTypeId
//@   requires wfHandler(h) && respond != nil
//@   ensures unchanged_world()
//@   modifies {C03} all ghost.*
//@   allocates
//@   ensures {C03} forall o: *models.Session :: o != nil && !fresh(o) && old(joined(h) && sepSessions(h.currentSession, o)) ==> obsSame(o) && sepSessions(h.currentSession, o)
//@   ensures {C03} forall o1: *models.Session, o2: *models.Session :: o1 != nil && o2 != nil && !fresh(o1) && !fresh(o2) && old(joined(h) && sepSessions(h.currentSession, o1) && sepSessions(h.currentSession, o2) && sepSessions(o1, o2)) ==> sepSessions(o1, o2)
//@   behaviour undecodable:
//@     assumes !decode_ok(msg)
//@     ensures result != nil
//@     emits []
//@   behaviour zero_id:
//@     assumes decode_ok(msg) && T == 0
//@     ensures result == nil
//@     emits [send(respond, hagallpb.ErrorResponse{Type: hagallpb.MsgType_MSG_TYPE_ERROR_RESPONSE, RequestId: req.RequestId, Code: hagallpb.ErrorCode_ERROR_CODE_BAD_REQUEST})]
//@   behaviour not_joined:
//@     assumes decode_ok(msg) && T != 0 && !joined(h)
//@     ensures {C04,C03} result != nil
//@     emits {C04,C03} []
//@   behaviour listed:
//@     assumes decode_ok(msg) && T != 0 && joined(h)
//@     ensures result == nil
//@     emits [List(h.currentSession.entityComponents, T); send(respond, hagallpb.EntityComponentListResponse{Type: hagallpb.MsgType_MSG_TYPE_ENTITY_COMPONENT_LIST_RESPONSE, RequestId: req.RequestId})]
//@   complete behaviours
//@   disjoint behaviours

//@ func (*websocket.RealtimeHandler).HandleEntityComponentSubscribe
//@   property C04, C13
//@   let req = decoded(msg, hagallpb.EntityComponentTypeSubscribeRequest)
//@   let P = h.currentParticipant
//@   let C = h.currentSession.entityComponents
//@   let T = decoded(msg, hagallpb.EntityComponentTypeSubscribeRequest).EntityComponentTypeId
//@   requires wfHandler(h) && respond != nil
//@   ensures wfHandler(h)
//@   modifies {C03} contents(h.currentSession.entityComponents.subscriptions), contents(h.currentSession.entityComponents.subscriptions[decoded(msg, hagallpb.EntityComponentTypeSubscribeRequest).EntityComponentTypeId]), all ghost.*
//@   allocates
//@   ensures {C03} forall o: *models.Session :: o != nil && !fresh(o) && old(joined(h) && sepSessions(h.currentSession, o)) ==> obsSame(o) && sepSessions(h.currentSession, o)
//@   ensures {C03} forall o1: *models.Session, o2: *models.Session :: o1 != nil && o2 != nil && !fresh(o1) && !fresh(o2) && old(joined(h) && sepSessions(h.currentSession, o1) && sepSessions(h.currentSession, o2) && sepSessions(o1, o2)) ==> sepSessions(o1, o2)
//@   behaviour undecodable:
//@     assumes !decode_ok(msg)
//@     ensures result != nil && unchanged_world()
//@     emits []
//@   behaviour zero_id:
//@     assumes decode_ok(msg) && T == 0
//@     ensures result == nil && unchanged_world()
//@     emits [send(respond, hagallpb.ErrorResponse{Type: hagallpb.MsgType_MSG_TYPE_ERROR_RESPONSE, RequestId: req.RequestId, Code: hagallpb.ErrorCode_ERROR_CODE_BAD_REQUEST})]
//@   behaviour not_joined:
//@     assumes decode_ok(msg) && T != 0 && !joined(h)
//@     ensures {C04,C03} result != nil && unchanged_world()
//@     emits {C04,C03} []
//@   behaviour unregistered:
//@     assumes decode_ok(msg) && T != 0 && joined(h) && !(T in C.nameIndex)
//@     ensures {C13,C01} result == nil && forall t: uint32, p: uint32 :: subscribed(C, t, p) <==> old(subscribed(C, t, p))
//@     emits {C13,C04,C01} [send(respond, hagallpb.ErrorResponse{Type: hagallpb.MsgType_MSG_TYPE_ERROR_RESPONSE, RequestId: req.RequestId, Code: hagallpb.ErrorCode_ERROR_CODE_NOT_FOUND})]
//@   behaviour subscribed:
//@     assumes decode_ok(msg) && T != 0 && joined(h) && T in C.nameIndex
//@     ensures {C13,C01} result == nil && subscribed(C, T, P.ID)
//@     ensures {C13,C01} forall t: uint32, p: uint32 :: (t != T || p != P.ID) ==> (subscribed(C, t, p) <==> old(subscribed(C, t, p)))
// C01 step lemma for a new subscription: from now on the subscriber's view must hold the components of
// this type, but nothing is handed to it here and none of their adds were relayed to it while it was
// not subscribed - the lemma holds only if there are none. It does NOT hold for the code as it is
// (finding D13, listed in /verif/known_findings.txt): the clause is kept so that the gap stays visible.
//@     ensures {C01} !old(subscribed(C, T, P.ID)) ==> forall e: uint32 :: !hasComp(C, T, e)
//@     emits {C13,C04,C01} [send(respond, hagallpb.EntityComponentTypeSubscribeResponse{Type: hagallpb.MsgType_MSG_TYPE_ENTITY_COMPONENT_TYPE_SUBSCRIBE_RESPONSE, RequestId: req.RequestId})]
//@   complete behaviours
//@   disjoint behaviours

//@ func (*websocket.RealtimeHandler).HandleEntityComponentUnsubscribe
//@   property C04, C13
//@   let req = decoded(msg, hagallpb.EntityComponentTypeUnsubscribeRequest)
//@   let P = h.currentParticipant
//@   let C = h.currentSession.entityComponents
//@   let T = decoded(msg, hagallpb.EntityComponentTypeUnsubscribeRequest).EntityComponentTypeId
//@   requires wfHandler(h) && respond != nil
//@   ensures wfHandler(h)
//@   modifies {C03} contents(h.currentSession.entityComponents.subscriptions[decoded(msg, hagallpb.EntityComponentTypeUnsubscribeRequest).EntityComponentTypeId]), all ghost.*
//@   allocates
//@   ensures {C03} forall o: *models.Session :: o != nil && !fresh(o) && old(joined(h) && sepSessions(h.currentSession, o)) ==> obsSame(o) && sepSessions(h.currentSession, o)
//@   ensures {C03} forall o1: *models.Session, o2: *models.Session :: o1 != nil && o2 != nil && !fresh(o1) && !fresh(o2) && old(joined(h) && sepSessions(h.currentSession, o1) && sepSessions(h.currentSession, o2) && sepSessions(o1, o2)) ==> sepSessions(o1, o2)
//@   behaviour undecodable:
//@     assumes !decode_ok(msg)
//@     ensures result != nil && unchanged_world()
//@     emits []
//@   behaviour zero_id:
//@     assumes decode_ok(msg) && T == 0
//@     ensures result == nil && unchanged_world()
//@     emits [send(respond, hagallpb.ErrorResponse{Type: hagallpb.MsgType_MSG_TYPE_ERROR_RESPONSE, RequestId: req.RequestId, Code: hagallpb.ErrorCode_ERROR_CODE_BAD_REQUEST})]
//@   behaviour not_joined:
//@     assumes decode_ok(msg) && T != 0 && !joined(h)
//@     ensures {C04,C03} result != nil && unchanged_world()
//@     emits {C04,C03} []
//@   behaviour unsubscribed:
//@     assumes decode_ok(msg) && T != 0 && joined(h)
//@     ensures {C13,C01} result == nil && !subscribed(C, T, P.ID)
//@     ensures {C13,C01} forall t: uint32, p: uint32 :: (t != T || p != P.ID) ==> (subscribed(C, t, p) <==> old(subscribed(C, t, p)))
//@     emits {C13,C04,C01} [send(respond, hagallpb.EntityComponentTypeUnsubscribeResponse{Type: hagallpb.MsgType_MSG_TYPE_ENTITY_COMPONENT_TYPE_UNSUBSCRIBE_RESPONSE, RequestId: req.RequestId})]
//@   complete behaviours
//@   disjoint behaviours

//@ func (*websocket.RealtimeHandler).HandleReceipt
//@   property C19, C04
//@   let req = decoded(msg, hagallpb.ReceiptRequest)
//@   requires respond != nil
//@   ensures unchanged_world()
//@   modifies {C03} all ghost.*, all chan.*
//@   allocates
//@   ensures {C03} forall o: *models.Session :: o != nil && !fresh(o) && old(joined(h) && sepSessions(h.currentSession, o)) ==> obsSame(o) && sepSessions(h.currentSession, o)
//@   ensures {C03} forall o1: *models.Session, o2: *models.Session :: o1 != nil && o2 != nil && !fresh(o1) && !fresh(o2) && old(joined(h) && sepSessions(h.currentSession, o1) && sepSessions(h.currentSession, o2) && sepSessions(o1, o2)) ==> sepSessions(o1, o2)
//@   behaviour undecodable:
//@     assumes !decode_ok(msg)
//@     ensures result != nil
//@     emits []
//@   behaviour empty_field:
//@     assumes decode_ok(msg) && (len(req.Receipt) == 0 || len(req.Hash) == 0 || len(req.Signature) == 0)
//@     ensures result != nil
//@     emits {C19,C04} [send(respond, hagallpb.ErrorResponse{Type: hagallpb.MsgType_MSG_TYPE_ERROR_RESPONSE, RequestId: req.RequestId, Code: hagallpb.ErrorCode_ERROR_CODE_BAD_REQUEST})]
//@   behaviour accepted:
//@     assumes decode_ok(msg) && len(req.Receipt) != 0 && len(req.Hash) != 0 && len(req.Signature) != 0 && chan_ready(h.ReceiptChan)
//@     ensures result == nil
//@     emits {C19,C04} [chansend(h.ReceiptChan, ncsclient.ReceiptPayload{Receipt: req.Receipt, Hash: req.Hash, Signature: req.Signature}); send(respond, hagallpb.ReceiptResponse{Type: hagallpb.MsgType_MSG_TYPE_RECEIPT_RESPONSE, RequestId: req.RequestId})]
//@   behaviour too_busy:
//@     assumes decode_ok(msg) && len(req.Receipt) != 0 && len(req.Hash) != 0 && len(req.Signature) != 0 && !chan_ready(h.ReceiptChan)
//@     ensures result != nil
//@     emits {C19,C04} [send(respond, hagallpb.ErrorResponse{Type: hagallpb.MsgType_MSG_TYPE_ERROR_RESPONSE, RequestId: req.RequestId, Code: hagallpb.ErrorCode_ERROR_CODE_SERVER_TOO_BUSY})]
//@   complete behaviours
//@   disjoint behaviours

// ---------------------------------------------------------------------------------------------
// Leaving and joining
// ---------------------------------------------------------------------------------------------

//@ spec fn gone(s *models.Session, pid uint32, e uint32) bool = e in s.entities && s.entities[e].ParticipantID == pid && !s.entities[e].Persist

//@ func (*websocket.RealtimeHandler).leaveSession
//@   property C06
//@   event
//@   let S = h.currentSession
//@   let P = h.currentParticipant
//@   let C = h.currentSession.entityComponents
//@   let R = h.Sessions
//@   requires wfHandler(h) && wfRegistry(h.Sessions)
//@   requires joined(h) ==> registered(h.Sessions, h.currentSession)
//@   requires forall j: int :: 0 <= j && j < len(h.Modules) ==> h.Modules[j] != nil
//@   modifies h.currentSession, h.currentParticipant, contents(h.currentSession.entities), contents(h.currentSession.participants), contents(h.Sessions.sessions), h.Sessions.ids.reusableIDs, contents(h.Sessions.ids.reusableIDs), h.currentSession.closeOnce
//@   modifies all contents(map[uint32]*hagallpb.EntityComponent @ models.EntityComponentStore.entityComponents[]), all contents(map[uint32]struct{} @ models.EntityComponentStore.subscriptions[])
//@   modifies all modules/*, all ghost.*
//@   allocates
//@   ensures h.currentSession == nil && h.currentParticipant == nil && wfRegistry(h.Sessions)
//@   ensures {C07,C01} forall g: string :: S != nil && g != gid(serverid(R.DiscoveryService), S.ID) ==> ((g in R.sessions) <==> old(g in R.sessions)) && (g in R.sessions ==> R.sessions[g] == old(R.sessions[g]))
//@   ensures unchanged(R.sessions, R.DiscoveryService, R.ids.currentID) && (once_done(R.initOnce) <==> old(once_done(R.initOnce)))
//@   ensures {C03} forall o: *models.Session :: o != nil && !fresh(o) && old(joined(h) && sepSessions(h.currentSession, o)) ==> obsSame(o) && sepSessions(S, o) && (old(wfSession(o)) ==> wfSession(o))
//@   ensures {C03} forall o1: *models.Session, o2: *models.Session :: o1 != nil && o2 != nil && !fresh(o1) && !fresh(o2) && old(joined(h) && sepSessions(h.currentSession, o1) && sepSessions(h.currentSession, o2) && sepSessions(o1, o2)) ==> sepSessions(o1, o2)
//@   behaviour not_joined:
//@     assumes !joined(h)
//@     ensures unchanged_world()
//@   behaviour left:
//@     assumes joined(h)
//@     ensures {C06,C05,C10,C01} wfIDs(S) && wfOwnership(S)
//@     ensures wfSession(S)
//@     ensures {C06,C01} forall e: uint32 :: (e in S.entities) <==> (old(e in S.entities) && !old(gone(S, P.ID, e)))
//@     ensures {C06,C01} forall e: uint32 :: e in S.entities ==> S.entities[e] == old(S.entities[e])
//@     ensures {C06,C12,C01} forall t: uint32, e: uint32 :: (hasComp(C, t, e) <==> (old(hasComp(C, t, e)) && !old(gone(S, P.ID, e)))) && (hasComp(C, t, e) ==> compAt(C, t, e) == old(compAt(C, t, e)))
//@     ensures {C06,C13,C01} forall t: uint32, p: uint32 :: subscribed(C, t, p) <==> (old(subscribed(C, t, p)) && p != P.ID)
//@     ensures {C06,C01,C03} forall p: uint32 :: (p in S.participants) <==> (old(p in S.participants) && p != P.ID)
//@     ensures {C06,C01,C03} forall p: uint32 :: p in S.participants ==> S.participants[p] == old(S.participants[p])
//@     ensures {C06,C02,C01} forall e: uint32 :: evcount(Broadcast, hagallpb.EntityDeleteBroadcast, EntityId, e) == old(evcount(Broadcast, hagallpb.EntityDeleteBroadcast, EntityId, e)) + ite(old(gone(S, P.ID, e)) && !flag(h.FeatureFlags, featureflag.FlagDisableEntityDeleteBroadcast), 1, 0)
//@     ensures {C07,C01} (len(S.participants) == 0) <==> !registered(R, S)
//@     ensures {C07,C01} len(S.participants) == 0 ==> once_done(S.closeOnce)
//@     emits {C06,C02,C01} [when h.stopFrameHandling != nil =>> callfn(h.stopFrameHandling); when !flag(h.FeatureFlags, featureflag.FlagDisableParticipantLeaveBroadcast) =>> Broadcast(S, P, hagallpb.ParticipantLeaveBroadcast{Type: hagallpb.MsgType_MSG_TYPE_PARTICIPANT_LEAVE_BROADCAST, ParticipantId: P.ID}); when len(S.participants) == 1 =>> Close(S)]
//@   complete behaviours
//@   disjoint behaviours
//@   loop 1:
//@     invariant -1 <= $rangeindex && $rangeindex < len(h.Modules)
//@     invariant unchanged_except("modules/")
//@   loop 2:
//@     invariant wfSession(S) && member(S, P) && wfRegistry(R) && registered(R, S)
//@     invariant unchanged(h.currentSession, h.currentParticipant, h.Sessions, h.FeatureFlags, h.stopFrameHandling)
//@     invariant {C03} forall o: *models.Session :: o != nil && !fresh(o) && old(joined(h) && sepSessions(h.currentSession, o)) ==> obsSame(o) && sepSessions(S, o) && (old(wfSession(o)) ==> wfSession(o))
//@     invariant {C03} forall o1: *models.Session, o2: *models.Session :: o1 != nil && o2 != nil && !fresh(o1) && !fresh(o2) && old(joined(h) && sepSessions(h.currentSession, o1) && sepSessions(h.currentSession, o2) && sepSessions(o1, o2)) ==> sepSessions(o1, o2)
//@     invariant forall k: uint32 :: k in V ==> k in P.entityIDs
//@     invariant forall m: map[uint32]*models.Entity @ models.Session.entities :: m != S.entities ==> same_contents(m)
//@     invariant forall e: uint32 :: (e in S.entities) <==> (old(e in S.entities) && !(e in V && old(gone(S, P.ID, e))))
//@     invariant forall e: uint32 :: e in S.entities ==> S.entities[e] == old(S.entities[e]) && S.entities[e].ParticipantID == old(S.entities[e].ParticipantID) && S.entities[e].Persist == old(S.entities[e].Persist)
//@     invariant forall t: uint32, e: uint32 :: (hasComp(C, t, e) <==> (old(hasComp(C, t, e)) && !(e in V && old(gone(S, P.ID, e))))) && (hasComp(C, t, e) ==> compAt(C, t, e) == old(compAt(C, t, e)))
//@     invariant forall t: uint32, p: uint32 :: subscribed(C, t, p) <==> (old(subscribed(C, t, p)) && p != P.ID)
//@     invariant forall p: uint32 :: ((p in S.participants) <==> old(p in S.participants)) && (p in S.participants ==> S.participants[p] == old(S.participants[p]))
//@     invariant forall e: uint32 :: evcount(Broadcast, hagallpb.EntityDeleteBroadcast, EntityId, e) == old(evcount(Broadcast, hagallpb.EntityDeleteBroadcast, EntityId, e)) + ite(e in V && old(gone(S, P.ID, e)) && !flag(h.FeatureFlags, featureflag.FlagDisableEntityDeleteBroadcast), 1, 0)
//@     emits {C06,C02,C01} [when $id in S.entities && !S.entities[$id].Persist && !flag(h.FeatureFlags, featureflag.FlagDisableEntityDeleteBroadcast) =>> Broadcast(S, P, hagallpb.EntityDeleteBroadcast{Type: hagallpb.MsgType_MSG_TYPE_ENTITY_DELETE_BROADCAST, EntityId: $id})]

//@ func (*websocket.RealtimeHandler).HandleDisconnect
//@   property C06
//@   requires wfHandler(h) && wfRegistry(h.Sessions)
//@   requires joined(h) ==> registered(h.Sessions, h.currentSession)
//@   requires forall j: int :: 0 <= j && j < len(h.Modules) ==> h.Modules[j] != nil
//@   ensures {C06,C08} h.currentSession == nil && h.currentParticipant == nil
//@   ensures {C03} forall o: *models.Session :: o != nil && !fresh(o) && old(joined(h) && sepSessions(h.currentSession, o)) ==> obsSame(o)
//@   ensures {C03} forall o1: *models.Session, o2: *models.Session :: o1 != nil && o2 != nil && !fresh(o1) && !fresh(o2) && old(joined(h) && sepSessions(h.currentSession, o1) && sepSessions(h.currentSession, o2) && sepSessions(o1, o2)) ==> sepSessions(o1, o2)
//@   behaviour not_joined:
//@     assumes !joined(h)
//@     ensures unchanged_world()
//@     emits []
//@   behaviour leaves:
//@     assumes joined(h)
//@     emits {C06,C08} [leaveSession(h)]
//@   complete behaviours
//@   disjoint behaviours

//@ func (*websocket.RealtimeHandler).HandleParticipantJoin
//@   property C07, C04
//@   let req = decoded(msg, hagallpb.ParticipantJoinRequest)
//@   let sid = decoded(msg, hagallpb.ParticipantJoinRequest).SessionId
//@   let S0 = h.currentSession
//@   let R = h.Sessions
//@   let T = h.Sessions.sessions[decoded(msg, hagallpb.ParticipantJoinRequest).SessionId]
//@   let already = h.currentSession != nil && gid(serverid(h.Sessions.DiscoveryService), h.currentSession.ID) == decoded(msg, hagallpb.ParticipantJoinRequest).SessionId
//@   let found = once_done(h.Sessions.initOnce) && decoded(msg, hagallpb.ParticipantJoinRequest).SessionId in h.Sessions.sessions
//@   requires wfHandler(h) && wfRegistry(h.Sessions) && respond != nil && handleFrame != nil
//@   requires found ==> wfSession(T) && T.participantIDs.currentID < 4294967295 && T.frameHandlerIDs.currentID < 4294967295
//@   requires joined(h) ==> registered(h.Sessions, h.currentSession)
//@   requires {C03} joined(h) && found && !already ==> sepSessions(h.currentSession, T)
//@   requires forall j: int :: 0 <= j && j < len(h.Modules) ==> h.Modules[j] != nil
//@   requires h.FrameDuration > 0 && h.Sessions.ids.currentID < 4294967295
//@   ensures wfHandler(h) && wfRegistry(h.Sessions)
//@   ensures {C07,C01} joined(h) ==> registered(h.Sessions, h.currentSession)
//@   ensures {C03} forall o: *models.Session :: o != nil && !fresh(o) && old(joined(h) ==> sepSessions(h.currentSession, o)) && old(found ==> sepSessions(T, o)) ==> obsSame(o) && (joined(h) ==> sepSessions(h.currentSession, o))
//@   ensures {C03} forall o1: *models.Session, o2: *models.Session :: o1 != nil && o2 != nil && !fresh(o1) && !fresh(o2) && old((joined(h) ==> sepSessions(h.currentSession, o1) && sepSessions(h.currentSession, o2)) && (found ==> sepSessions(T, o1) && sepSessions(T, o2)) && sepSessions(o1, o2)) ==> sepSessions(o1, o2)
//@   behaviour undecodable:
//@     assumes !decode_ok(msg)
//@     ensures {C04} result != nil && unchanged_world()
//@     emits {C04,C02,C01} []
//@   behaviour already_joined:
//@     assumes decode_ok(msg) && already
//@     ensures {C04} result == nil && unchanged_world()
//@     emits {C04,C02,C01} [send(respond, hagallpb.ErrorResponse{Type: hagallpb.MsgType_MSG_TYPE_ERROR_RESPONSE, RequestId: req.RequestId, Code: hagallpb.ErrorCode_ERROR_CODE_SESSION_ALREADY_JOINED})]
//@   behaviour not_found:
//@     assumes decode_ok(msg) && !already && sid != "" && !found
//@     ensures {C04} result == nil && unchanged_except("models.SessionStore.", "once:models.SessionStore.", "mapdom:models.SessionStore.", "mapcard:models.SessionStore.", "mapval:models.SessionStore.")
//@     emits {C04,C02,C01} [send(respond, hagallpb.ErrorResponse{Type: hagallpb.MsgType_MSG_TYPE_ERROR_RESPONSE, RequestId: req.RequestId, Code: hagallpb.ErrorCode_ERROR_CODE_NOT_FOUND})]
//@   behaviour create_fresh:
//@     assumes decode_ok(msg) && !joined(h) && sid == "" && !found
//@     ensures {C04} result == nil
//@     ensures {C07,C01} joined(h) && fresh(h.currentSession) && registered(R, h.currentSession)
//@     ensures {C10} live(R.ids, h.currentSession.ID) && forall x: uint32 :: x == h.currentSession.ID ==> !old(live(R.ids, x))
//@     ensures {C07,C01} len(h.currentSession.participants) == 1 && len(h.currentSession.entities) == 0 && h.currentParticipant.ID == 1 && h.currentParticipant.Responder == respond
//@     ensures {C07,C01} forall g: string :: g != gid(serverid(R.DiscoveryService), h.currentSession.ID) ==> ((g in R.sessions) <==> (old(once_done(R.initOnce)) && old(g in R.sessions))) && (g in R.sessions ==> R.sessions[g] == old(R.sessions[g]))
//@     ensures {C07,C01} gaugetotal(sessions) == old(gaugetotal(sessions)) + 1
// the basis of Session.Close's non-blocking stop signal
//@     ensures {C07} chancap(h.currentSession.closeFrameChan) == 1
//@     ensures {C07,C03} len(h.currentSession.frameHandlers) == 1
//@     ensures {C01} !flag(h.FeatureFlags, featureflag.FlagDisableSessionState) ==> snapParts(h.currentSession, PS) && snapEnts(h.currentSession, ES) && snapComps(h.currentSession.entityComponents, CS)
//@     emits {C04,C02,C01} [send(respond, hagallpb.ParticipantJoinResponse{Type: hagallpb.MsgType_MSG_TYPE_PARTICIPANT_JOIN_RESPONSE, RequestId: req.RequestId, SessionId: gid(serverid(R.DiscoveryService), h.currentSession.ID), SessionUuid: h.currentSession.SessionUUID, ParticipantId: 1}); when !flag(h.FeatureFlags, featureflag.FlagDisableSessionState) =>> send(respond, hagallpb.SessionState{Type: hagallpb.MsgType_MSG_TYPE_SESSION_STATE, Participants: bind(PS), Entities: bind(ES), EntityComponents: bind(CS)}); when !flag(h.FeatureFlags, featureflag.FlagDisableParticipantJoinBroadcast) =>> Broadcast(h.currentSession, h.currentParticipant, hagallpb.ParticipantJoinBroadcast{Type: hagallpb.MsgType_MSG_TYPE_PARTICIPANT_JOIN_BROADCAST, OriginTimestamp: req.Timestamp, ParticipantId: 1})]
//@   behaviour join_fresh:
//@     assumes decode_ok(msg) && !joined(h) && found
//@     ensures {C04} result == nil
//@     ensures {C07,C01} h.currentSession == T && registered(R, T) && same_contents(R.sessions)
//@     ensures {C10,C05,C01} h.currentParticipant.ID == old(T.participantIDs.currentID) + 1 && !old((T.participantIDs.currentID + 1) in T.participants) && member(T, h.currentParticipant) && h.currentParticipant.Responder == respond && fresh(h.currentParticipant)
//@     ensures {C07,C01} forall p: uint32 :: p != h.currentParticipant.ID ==> ((p in T.participants) <==> old(p in T.participants)) && (p in T.participants ==> T.participants[p] == old(T.participants[p]))
//@     ensures {C07,C01} same_contents(T.entities) && forall t: uint32, e: uint32 :: (hasComp(T.entityComponents, t, e) <==> old(hasComp(T.entityComponents, t, e)))
// every join registers the connection's frame callback with the session it joins (leaveSession's cancel
// function belongs to that registration)
//@     ensures {C07,C03} len(T.frameHandlers) == old(len(T.frameHandlers)) + 1
//@     ensures {C01} !flag(h.FeatureFlags, featureflag.FlagDisableSessionState) ==> snapParts(h.currentSession, PS) && snapEnts(h.currentSession, ES) && snapComps(h.currentSession.entityComponents, CS)
//@     emits {C04,C02,C01} [send(respond, hagallpb.ParticipantJoinResponse{Type: hagallpb.MsgType_MSG_TYPE_PARTICIPANT_JOIN_RESPONSE, RequestId: req.RequestId, SessionId: sid, SessionUuid: T.SessionUUID, ParticipantId: h.currentParticipant.ID}); when !flag(h.FeatureFlags, featureflag.FlagDisableSessionState) =>> send(respond, hagallpb.SessionState{Type: hagallpb.MsgType_MSG_TYPE_SESSION_STATE, Participants: bind(PS), Entities: bind(ES), EntityComponents: bind(CS)}); when !flag(h.FeatureFlags, featureflag.FlagDisableParticipantJoinBroadcast) =>> Broadcast(T, h.currentParticipant, hagallpb.ParticipantJoinBroadcast{Type: hagallpb.MsgType_MSG_TYPE_PARTICIPANT_JOIN_BROADCAST, OriginTimestamp: req.Timestamp, ParticipantId: h.currentParticipant.ID})]
//@   behaviour switch:
//@     assumes decode_ok(msg) && !already && joined(h) && (sid == "" || found)
//@     ensures {C04} result == nil && joined(h)
//@     ensures {C01} !flag(h.FeatureFlags, featureflag.FlagDisableSessionState) ==> snapParts(h.currentSession, PS) && snapEnts(h.currentSession, ES) && snapComps(h.currentSession.entityComponents, CS)
//@     emits {C04,C06,C02,C01,C08} [leaveSession(h); send(respond, hagallpb.ParticipantJoinResponse{Type: hagallpb.MsgType_MSG_TYPE_PARTICIPANT_JOIN_RESPONSE, RequestId: req.RequestId, SessionId: gid(serverid(R.DiscoveryService), h.currentSession.ID), SessionUuid: h.currentSession.SessionUUID, ParticipantId: h.currentParticipant.ID}); when !flag(h.FeatureFlags, featureflag.FlagDisableSessionState) =>> send(respond, hagallpb.SessionState{Type: hagallpb.MsgType_MSG_TYPE_SESSION_STATE, Participants: bind(PS), Entities: bind(ES), EntityComponents: bind(CS)}); when !flag(h.FeatureFlags, featureflag.FlagDisableParticipantJoinBroadcast) =>> Broadcast(h.currentSession, h.currentParticipant, hagallpb.ParticipantJoinBroadcast{Type: hagallpb.MsgType_MSG_TYPE_PARTICIPANT_JOIN_BROADCAST, OriginTimestamp: req.Timestamp, ParticipantId: h.currentParticipant.ID})]
//@   complete behaviours
//@   disjoint behaviours
//@   loop 1:
//@     invariant {C03} forall o: *models.Session :: o != nil && !fresh(o) && old(joined(h) ==> sepSessions(h.currentSession, o)) && old(found ==> sepSessions(T, o)) ==> obsSame(o) && (joined(h) ==> sepSessions(h.currentSession, o))
//@     invariant {C03} forall o1: *models.Session, o2: *models.Session :: o1 != nil && o2 != nil && !fresh(o1) && !fresh(o2) && old((joined(h) ==> sepSessions(h.currentSession, o1) && sepSessions(h.currentSession, o2)) && (found ==> sepSessions(T, o1) && sepSessions(T, o2)) && sepSessions(o1, o2)) ==> sepSessions(o1, o2)
//@     invariant -1 <= $rangeindex && $rangeindex < len(h.Modules)

// ---------------------------------------------------------------------------------------------
// The Handler interface as seen by the connection loop: every method is an abstract event that may
// change anything except the preserved arrays (the concrete RealtimeHandler methods are proved against
// their own contracts). Every implementation in the repository (RealtimeHandler, handlerWithMetrics,
// handlerWithLogs) is checked against these contracts: its body, or the frame of its own contract, must
// stay within the frame written here (obligations `implements:frame:...` and the functions
// `<method>@<interface method>`). A method may write the fields of its own receiver object (the decorators
// keep their bookkeeping there); the preserved patterns are stated for every other object.
// ---------------------------------------------------------------------------------------------

//@ func (websocket.Handler).HandlePing
//@   event
//@   modifies all *
//@   preserves websocket.handler., websocket.handlerWithMetrics., websocket.handlerWithLogs., cell:, ghost.ctxcancelled, ghost.evn:handleDisconnect
//@   allocates

//@ func (websocket.Handler).HandlePingResponse
//@   event
//@   modifies all *
//@   preserves websocket.handler., websocket.handlerWithMetrics., websocket.handlerWithLogs., cell:, ghost.ctxcancelled, ghost.evn:handleDisconnect
//@   allocates

//@ func (websocket.Handler).HandleSignedLatency
//@   event
//@   modifies all *
//@   preserves websocket.handler., websocket.handlerWithMetrics., websocket.handlerWithLogs., cell:, ghost.ctxcancelled, ghost.evn:handleDisconnect
//@   allocates

//@ func (websocket.Handler).HandleEntityAdd
//@   event
//@   modifies all *
//@   preserves websocket.handler., websocket.handlerWithMetrics., websocket.handlerWithLogs., cell:, ghost.ctxcancelled, ghost.evn:handleDisconnect
//@   allocates

//@ func (websocket.Handler).HandleEntityDelete
//@   event
//@   modifies all *
//@   preserves websocket.handler., websocket.handlerWithMetrics., websocket.handlerWithLogs., cell:, ghost.ctxcancelled, ghost.evn:handleDisconnect
//@   allocates

//@ func (websocket.Handler).HandleCustomMessage
//@   event
//@   modifies all *
//@   preserves websocket.handler., websocket.handlerWithMetrics., websocket.handlerWithLogs., cell:, ghost.ctxcancelled, ghost.evn:handleDisconnect
//@   allocates

//@ func (websocket.Handler).HandleEntityComponentTypeAdd
//@   event
//@   modifies all *
//@   preserves websocket.handler., websocket.handlerWithMetrics., websocket.handlerWithLogs., cell:, ghost.ctxcancelled, ghost.evn:handleDisconnect
//@   allocates

//@ func (websocket.Handler).HandleEntityComponentGetName
//@   event
//@   modifies all *
//@   preserves websocket.handler., websocket.handlerWithMetrics., websocket.handlerWithLogs., cell:, ghost.ctxcancelled, ghost.evn:handleDisconnect
//@   allocates

//@ func (websocket.Handler).HandleEntityComponentGetID
//@   event
//@   modifies all *
//@   preserves websocket.handler., websocket.handlerWithMetrics., websocket.handlerWithLogs., cell:, ghost.ctxcancelled, ghost.evn:handleDisconnect
//@   allocates

//@ func (websocket.Handler).HandleEntityComponentAdd
//@   event
//@   modifies all *
//@   preserves websocket.handler., websocket.handlerWithMetrics., websocket.handlerWithLogs., cell:, ghost.ctxcancelled, ghost.evn:handleDisconnect
//@   allocates

//@ func (websocket.Handler).HandleEntityComponentDelete
//@   event
//@   modifies all *
//@   preserves websocket.handler., websocket.handlerWithMetrics., websocket.handlerWithLogs., cell:, ghost.ctxcancelled, ghost.evn:handleDisconnect
//@   allocates

//@ func (websocket.Handler).HandleEntityComponentList
//@   event
//@   modifies all *
//@   preserves websocket.handler., websocket.handlerWithMetrics., websocket.handlerWithLogs., cell:, ghost.ctxcancelled, ghost.evn:handleDisconnect
//@   allocates

//@ func (websocket.Handler).HandleEntityComponentSubscribe
//@   event
//@   modifies all *
//@   preserves websocket.handler., websocket.handlerWithMetrics., websocket.handlerWithLogs., cell:, ghost.ctxcancelled, ghost.evn:handleDisconnect
//@   allocates

//@ func (websocket.Handler).HandleEntityComponentUnsubscribe
//@   event
//@   modifies all *
//@   preserves websocket.handler., websocket.handlerWithMetrics., websocket.handlerWithLogs., cell:, ghost.ctxcancelled, ghost.evn:handleDisconnect
//@   allocates

//@ func (websocket.Handler).HandleReceipt
//@   event
//@   modifies all *
//@   preserves websocket.handler., websocket.handlerWithMetrics., websocket.handlerWithLogs., cell:, ghost.ctxcancelled, ghost.evn:handleDisconnect
//@   allocates

//@ func (websocket.Handler).HandleEntityUpdatePose
//@   event
//@   modifies all *
//@   preserves websocket.handler., websocket.handlerWithMetrics., websocket.handlerWithLogs., cell:, ghost.ctxcancelled, ghost.evn:handleDisconnect
//@   allocates

//@ func (websocket.Handler).HandleEntityComponentUpdate
//@   event
//@   modifies all *
//@   preserves websocket.handler., websocket.handlerWithMetrics., websocket.handlerWithLogs., cell:, ghost.ctxcancelled, ghost.evn:handleDisconnect
//@   allocates

//@ func (websocket.Handler).HandleParticipantJoin
//@   event
//@   modifies all *
//@   preserves websocket.handler., websocket.handlerWithMetrics., websocket.handlerWithLogs., cell:, ghost.ctxcancelled, ghost.evn:handleDisconnect
//@   allocates

//@ func (websocket.Handler).HandleWithModule
//@   event
//@   modifies all *
//@   preserves websocket.handler., websocket.handlerWithMetrics., websocket.handlerWithLogs., cell:, ghost.ctxcancelled, ghost.evn:handleDisconnect
//@   allocates

//@ func (websocket.Handler).HandleDisconnect
//@   event
//@   modifies all *
//@   preserves websocket.handler., websocket.handlerWithMetrics., websocket.handlerWithLogs., cell:, ghost.ctxcancelled, ghost.evn:handleDisconnect
//@   allocates

//@ func (websocket.Handler).HandleConnect
//@   event
//@   modifies all *
//@   preserves websocket.handler., websocket.handlerWithMetrics., websocket.handlerWithLogs., cell:, ghost.ctxcancelled, ghost.evn:handleDisconnect
//@   allocates

//@ func (websocket.Handler).SendSyncClock
//@   event
//@   modifies all *
//@   preserves websocket.handler., websocket.handlerWithMetrics., websocket.handlerWithLogs., cell:, ghost.ctxcancelled, ghost.evn:handleDisconnect
//@   allocates

//@ func (websocket.Handler).CurrentParticipant
//@   modifies nothing
//@   allocates

//@ func (websocket.Handler).CurrentSession
//@   modifies nothing
//@   allocates

//@ func (websocket.Handler).GetModules
//@   modifies nothing
//@   allocates

//@ func (websocket.Handler).GetClientID
//@   modifies nothing
//@   allocates

//@ func (websocket.Handler).IdleTimeout
//@   modifies nothing
//@   allocates

//@ func (websocket.Handler).SyncClockInterval
//@   modifies nothing
//@   allocates
//@   trusted_ensures result > 0

// configuration invariant of the concrete handler: cmd/main.go passes a positive interval (a ticker panics on <= 0)
//@ func (*websocket.RealtimeHandler).SyncClockInterval
//@   requires h.ClientSyncClockInterval > 0
//@   modifies nothing
//@   ensures result == h.ClientSyncClockInterval

//@ func (websocket.Handler).Sender
//@   modifies nothing
//@   allocates

//@ func (websocket.Handler).Receiver
//@   modifies nothing
//@   allocates

//@ func (websocket.Handler).GetSessions
//@   modifies nothing
//@   allocates

// Close: the logging decorator flushes its message counters and stops its summary worker here, so Close is
// not read-only; it leaves the connection loop's own state, the metrics decorator and the ghost counters alone.
//@ func (websocket.Handler).Close
//@   modifies all *
//@   preserves websocket.handler., websocket.handlerWithMetrics., cell:, ghost.ctxcancelled, ghost.evn:handleDisconnect
//@   allocates

// trusted frame (the body ranges over the counter map and builds a log entry through the logging library)
//@ func (*websocket.handlerWithLogs).logSummary
//@   trusted
//@   modifies contents(h.counter)
//@   allocates

//@ func (*websocket.handler).handleMessage
//@   property C04
//@   event
//@   modifies all *
//@   preserves websocket.handler., websocket.handlerWithMetrics., websocket.handlerWithLogs., cell:, ghost.ctxcancelled, ghost.evn:handleDisconnect
//@   allocates
//@   requires h.Handler != nil && h.dispatcher != nil && msgtype(msg) != nil
//@   let T = msgtype(msg)
//@   behaviour ping:
//@     assumes T == enum(hagallpb.MsgType_MSG_TYPE_PING_REQUEST)
//@     emits {C04} [HandlePing(h.Handler, _, responder, msg)]
//@   behaviour pingresponse:
//@     assumes T == enum(hagallpb.MsgType_MSG_TYPE_PING_RESPONSE)
//@     emits {C04} [HandlePingResponse(h.Handler, _, responder, msg)]
//@   behaviour signedlatency:
//@     assumes T == enum(hagallpb.MsgType_MSG_TYPE_SIGNED_LATENCY_REQUEST)
//@     emits {C04} [HandleSignedLatency(h.Handler, _, responder, msg)]
//@   behaviour participantjoin:
//@     assumes T == enum(hagallpb.MsgType_MSG_TYPE_PARTICIPANT_JOIN_REQUEST)
//@     emits {C04} [HandleParticipantJoin(h.Handler, _, _, responder, msg)]
//@   behaviour entityadd:
//@     assumes T == enum(hagallpb.MsgType_MSG_TYPE_ENTITY_ADD_REQUEST)
//@     emits {C04} [HandleEntityAdd(h.Handler, _, responder, msg)]
//@   behaviour entitydelete:
//@     assumes T == enum(hagallpb.MsgType_MSG_TYPE_ENTITY_DELETE_REQUEST)
//@     emits {C04} [HandleEntityDelete(h.Handler, _, responder, msg)]
//@   behaviour entityupdatepose:
//@     assumes T == enum(hagallpb.MsgType_MSG_TYPE_ENTITY_UPDATE_POSE)
//@     emits {C04} [HandleEntityUpdatePose(h.Handler, _, msg)]
//@   behaviour custommessage:
//@     assumes T == enum(hagallpb.MsgType_MSG_TYPE_CUSTOM_MESSAGE)
//@     emits {C04} [HandleCustomMessage(h.Handler, _, responder, msg)]
//@   behaviour entitycomponenttypeadd:
//@     assumes T == enum(hagallpb.MsgType_MSG_TYPE_ENTITY_COMPONENT_TYPE_ADD_REQUEST)
//@     emits {C04} [HandleEntityComponentTypeAdd(h.Handler, _, responder, msg)]
//@   behaviour entitycomponentgetname:
//@     assumes T == enum(hagallpb.MsgType_MSG_TYPE_ENTITY_COMPONENT_TYPE_GET_NAME_REQUEST)
//@     emits {C04} [HandleEntityComponentGetName(h.Handler, _, responder, msg)]
//@   behaviour entitycomponentgetid:
//@     assumes T == enum(hagallpb.MsgType_MSG_TYPE_ENTITY_COMPONENT_TYPE_GET_ID_REQUEST)
//@     emits {C04} [HandleEntityComponentGetID(h.Handler, _, responder, msg)]
//@   behaviour entitycomponentadd:
//@     assumes T == enum(hagallpb.MsgType_MSG_TYPE_ENTITY_COMPONENT_ADD_REQUEST)
//@     emits {C04} [HandleEntityComponentAdd(h.Handler, _, responder, msg)]
//@   behaviour entitycomponentdelete:
//@     assumes T == enum(hagallpb.MsgType_MSG_TYPE_ENTITY_COMPONENT_DELETE_REQUEST)
//@     emits {C04} [HandleEntityComponentDelete(h.Handler, _, responder, msg)]
//@   behaviour entitycomponentlist:
//@     assumes T == enum(hagallpb.MsgType_MSG_TYPE_ENTITY_COMPONENT_LIST_REQUEST)
//@     emits {C04} [HandleEntityComponentList(h.Handler, _, responder, msg)]
//@   behaviour entitycomponentupdate:
//@     assumes T == enum(hagallpb.MsgType_MSG_TYPE_ENTITY_COMPONENT_UPDATE)
//@     emits {C04} [HandleEntityComponentUpdate(h.Handler, _, msg)]
//@   behaviour entitycomponentsubscribe:
//@     assumes T == enum(hagallpb.MsgType_MSG_TYPE_ENTITY_COMPONENT_TYPE_SUBSCRIBE_REQUEST)
//@     emits {C04} [HandleEntityComponentSubscribe(h.Handler, _, responder, msg)]
//@   behaviour entitycomponentunsubscribe:
//@     assumes T == enum(hagallpb.MsgType_MSG_TYPE_ENTITY_COMPONENT_TYPE_UNSUBSCRIBE_REQUEST)
//@     emits {C04} [HandleEntityComponentUnsubscribe(h.Handler, _, responder, msg)]
//@   behaviour receipt:
//@     assumes T == enum(hagallpb.MsgType_MSG_TYPE_RECEIPT_REQUEST)
//@     emits {C04} [HandleReceipt(h.Handler, _, responder, msg)]
//@   behaviour other:
//@     assumes !(T == enum(hagallpb.MsgType_MSG_TYPE_PING_REQUEST)) && !(T == enum(hagallpb.MsgType_MSG_TYPE_PING_RESPONSE)) && !(T == enum(hagallpb.MsgType_MSG_TYPE_SIGNED_LATENCY_REQUEST)) && !(T == enum(hagallpb.MsgType_MSG_TYPE_PARTICIPANT_JOIN_REQUEST)) && !(T == enum(hagallpb.MsgType_MSG_TYPE_ENTITY_ADD_REQUEST)) && !(T == enum(hagallpb.MsgType_MSG_TYPE_ENTITY_DELETE_REQUEST)) && !(T == enum(hagallpb.MsgType_MSG_TYPE_ENTITY_UPDATE_POSE)) && !(T == enum(hagallpb.MsgType_MSG_TYPE_CUSTOM_MESSAGE)) && !(T == enum(hagallpb.MsgType_MSG_TYPE_ENTITY_COMPONENT_TYPE_ADD_REQUEST)) && !(T == enum(hagallpb.MsgType_MSG_TYPE_ENTITY_COMPONENT_TYPE_GET_NAME_REQUEST)) && !(T == enum(hagallpb.MsgType_MSG_TYPE_ENTITY_COMPONENT_TYPE_GET_ID_REQUEST)) && !(T == enum(hagallpb.MsgType_MSG_TYPE_ENTITY_COMPONENT_ADD_REQUEST)) && !(T == enum(hagallpb.MsgType_MSG_TYPE_ENTITY_COMPONENT_DELETE_REQUEST)) && !(T == enum(hagallpb.MsgType_MSG_TYPE_ENTITY_COMPONENT_LIST_REQUEST)) && !(T == enum(hagallpb.MsgType_MSG_TYPE_ENTITY_COMPONENT_UPDATE)) && !(T == enum(hagallpb.MsgType_MSG_TYPE_ENTITY_COMPONENT_TYPE_SUBSCRIBE_REQUEST)) && !(T == enum(hagallpb.MsgType_MSG_TYPE_ENTITY_COMPONENT_TYPE_UNSUBSCRIBE_REQUEST)) && !(T == enum(hagallpb.MsgType_MSG_TYPE_RECEIPT_REQUEST))
//@     emits {C04} []
//@   complete behaviours
//@   disjoint behaviours
//@   loop 1:
//@     invariant -1 <= $rangeindex
//@     emits {C04,C16} [HandleWithModule(h.Handler, _, $m, responder, msg)]

//@ func (*websocket.RealtimeHandler).HandleWithModule
//@   property C04, C16
//@   requires m != nil
//@   behaviour not_joined:
//@     assumes !joined(h)
//@     ensures {C04,C03} result == nil && unchanged_world()
//@     emits {C04,C03} []
//@   behaviour joined:
//@     assumes joined(h)
//@     emits {C04,C16} [HandleMsg(m, _, respond, msg)]
//@   complete behaviours
//@   disjoint behaviours

// ---------------------------------------------------------------------------------------------
// Signed latency requests (C18)
// ---------------------------------------------------------------------------------------------

//@ func (*websocket.RealtimeHandler).HandleSignedLatency
//@   property C18, C04
//@   let req = decoded(msg, hagallpb.SignedLatencyRequest)
//@   let P = h.currentParticipant
//@   requires wfHandler(h) && respond != nil
//@   requires h.currentParticipant != nil ==> h.currentParticipant.SignedLatency != nil
//@   modifies {C03} all models.SignedLatency.*, all ghost.*
//@   allocates
//@   ensures {C03} forall o: *models.Session :: o != nil && !fresh(o) && old(joined(h) && sepSessions(h.currentSession, o)) ==> obsSame(o) && sepSessions(h.currentSession, o)
//@   ensures {C03} forall o1: *models.Session, o2: *models.Session :: o1 != nil && o2 != nil && !fresh(o1) && !fresh(o2) && old(joined(h) && sepSessions(h.currentSession, o1) && sepSessions(h.currentSession, o2) && sepSessions(o1, o2)) ==> sepSessions(o1, o2)
//@   behaviour undecodable:
//@     assumes !decode_ok(msg)
//@     ensures result != nil && unchanged_world()
//@     emits []
//@   behaviour not_joined:
//@     assumes decode_ok(msg) && P == nil
//@     ensures {C18,C04} result == nil && unchanged_world()
//@     emits {C18,C04} [send(respond, hagallpb.ErrorResponse{Type: hagallpb.MsgType_MSG_TYPE_ERROR_RESPONSE, RequestId: req.RequestId, Code: hagallpb.ErrorCode_ERROR_CODE_UNAUTHORIZED})]
//@   behaviour bad_count:
//@     assumes decode_ok(msg) && P != nil && (req.IterationCount < 3 || req.IterationCount > 50)
//@     ensures {C18,C04} result == nil && unchanged_world()
//@     emits {C18,C04} [send(respond, hagallpb.ErrorResponse{Type: hagallpb.MsgType_MSG_TYPE_ERROR_RESPONSE, RequestId: req.RequestId, Code: hagallpb.ErrorCode_ERROR_CODE_BAD_REQUEST})]
//@   behaviour no_wallet:
//@     assumes decode_ok(msg) && P != nil && req.IterationCount >= 3 && req.IterationCount <= 50 && req.WalletAddress == ""
//@     ensures {C18,C04} result == nil && unchanged_world()
//@     emits {C18,C04} [send(respond, hagallpb.ErrorResponse{Type: hagallpb.MsgType_MSG_TYPE_ERROR_RESPONSE, RequestId: req.RequestId, Code: hagallpb.ErrorCode_ERROR_CODE_BAD_REQUEST})]
//@   behaviour started:
//@     assumes decode_ok(msg) && P != nil && req.IterationCount >= 3 && req.IterationCount <= 50 && req.WalletAddress != ""
//@     ensures {C18,C04} result == nil
//@     emits {C18} [Start(P.SignedLatency, h.PrivateKey, respond, req.RequestId, req.IterationCount, h.currentSession.SessionUUID, h.clientID, req.WalletAddress)]
//@   complete behaviours
//@   disjoint behaviours

//@ func (*websocket.RealtimeHandler).HandlePingResponse
//@   property C18, C04
//@   let req = decoded(msg, hagallpb.Response)
//@   let P = h.currentParticipant
//@   requires wfHandler(h) && respond != nil
//@   requires h.currentParticipant != nil ==> h.currentParticipant.SignedLatency != nil && (req.RequestId in h.currentParticipant.SignedLatency.PingRequests ==> h.currentParticipant.SignedLatency.sender != nil) && len(h.currentParticipant.SignedLatency.PingRequests) < 4294967296 && forall k: uint32 :: pending(h.currentParticipant.SignedLatency, k) ==> h.currentParticipant.SignedLatency.Iteration >= 1
//@   modifies {C03} all models.SignedLatency.*, all ghost.*
//@   allocates
//@   ensures {C03} forall o: *models.Session :: o != nil && !fresh(o) && old(joined(h) && sepSessions(h.currentSession, o)) ==> obsSame(o) && sepSessions(h.currentSession, o)
//@   ensures {C03} forall o1: *models.Session, o2: *models.Session :: o1 != nil && o2 != nil && !fresh(o1) && !fresh(o2) && old(joined(h) && sepSessions(h.currentSession, o1) && sepSessions(h.currentSession, o2) && sepSessions(o1, o2)) ==> sepSessions(o1, o2)
//@   behaviour undecodable:
//@     assumes !decode_ok(msg)
//@     ensures result != nil && unchanged_world()
//@     emits []
//@   behaviour not_joined:
//@     assumes decode_ok(msg) && P == nil
//@     ensures {C18,C04} result == nil && unchanged_world()
//@     emits {C18,C04} [send(respond, hagallpb.ErrorResponse{Type: hagallpb.MsgType_MSG_TYPE_ERROR_RESPONSE, RequestId: req.RequestId, Code: hagallpb.ErrorCode_ERROR_CODE_UNAUTHORIZED})]
//@   behaviour forwarded:
//@     assumes decode_ok(msg) && P != nil
//@     ensures {C18} result == nil
//@     emits {C18,C04} [OnPing(P.SignedLatency, req.RequestId); atleastwhen !pending(P.SignedLatency, req.RequestId) =>> send(respond, hagallpb.ErrorResponse{Type: hagallpb.MsgType_MSG_TYPE_ERROR_RESPONSE, RequestId: req.RequestId, Code: hagallpb.ErrorCode_ERROR_CODE_INTERNAL_SERVER_ERROR})]
//@   complete behaviours
//@   disjoint behaviours

// ---------------------------------------------------------------------------------------------
// The connection loop (C08): every way a connection can end funnels into handleDisconnect once.
// ---------------------------------------------------------------------------------------------

//@ func (*websocket.handler).disconnect
//@   property C08
//@   event
//@   modifies all chan.*, all ghost.chan*
//@   allocates
//@   emits {C08} [maybe =>> chansend(h.disconnectChan, err)]

//@ func (*websocket.handler).handleDisconnect
//@   property C08, C06
//@   event
//@   requires h.Handler != nil
//@   modifies all *
//@   preserves websocket.handler., websocket.handlerWithMetrics., websocket.handlerWithLogs., cell:, ghost.ctxcancelled, ghost.evn:handleDisconnect
//@   allocates
//@   emits {C08,C06} [HandleDisconnect(h.Handler, err)]

//@ func (*websocket.handler).send
//@   property C08
//@   requires h.Handler != nil
//@   assume_nonblocking A-drain: the connection's sender goroutine drains sendChan while the client keeps reading

//@ func (*websocket.handler).sendMsg
//@   property C08
//@   assume_nonblocking A-drain: the connection's sender goroutine drains sendChan while the client keeps reading

//@ func (*websocket.handler).Handle$1
//@   requires h != nil
//@   modifies all chan.*, all ghost.chan*
//@   allocates
//@   loop 1:
//@     invariant true

//@ func (*websocket.handler).Handle
//@   property C08, C06
//@   let H = h.Handler
//@   requires h.Handler != nil
//@   ensures {C08,C06} evtotal(handleDisconnect) == old(evtotal(handleDisconnect)) + 1
// teardown order: the connection's goroutines are waited for before the scheduler they dispatch into is closed
//@   emits {C08} [HandleConnect(H, _); wg_wait(_); scheduler_close(_)]
//@   loop 1:
//@     invariant unchanged(h.Handler) && h.Handler != nil && h.disconnectChan != nil && h.consumer != nil && h.dispatcher != nil
//@     invariant {C08,C06} evtotal(handleDisconnect) == old(evtotal(handleDisconnect)) + ite(cancelled($ctx), 1, 0)
//@     emits {C08} [disconnect(h, _)] | [SendSyncClock(H, _, _)] | [SendSyncClock(H, _, _); disconnect(h, _)] | [timer_reset(_, _); handleMessage(h, _, _, _)] | [timer_reset(_, _); handleMessage(h, _, _, _); disconnect(h, _)] | [handleDisconnect(h, _)]

// The connected-clients gauge: incremented once on connect and decremented once on disconnect, on the
// same (public endpoint, app key) label pair, which no other method of the decorator changes.
//@ func (*websocket.handlerWithMetrics).HandleConnect
//@   property C08
//@   requires h.Handler != nil
//@   ensures {C08} unchanged(h.publicEndpoint)
//@   emits {C08} [GaugeInc(gaugechild(h.publicEndpoint, h.appKey)); HandleConnect(h.Handler, conn)]

//@ func (*websocket.handlerWithMetrics).HandleDisconnect
//@   property C08
//@   requires h.Handler != nil
//@   ensures {C08} unchanged(h.publicEndpoint, h.appKey)
//@   emits {C08} [GaugeDec(gaugechild(h.publicEndpoint, h.appKey)); HandleDisconnect(h.Handler, err)]

// The metrics decorator delegates every request to the wrapped handler; none of these methods writes the
// gauge labels (checked by the immutable declaration above).
//@ func (*websocket.handlerWithMetrics).HandleEntityAdd
//@   property C08
//@   requires h.Handler != nil

//@ func (*websocket.handlerWithMetrics).HandleEntityDelete
//@   property C08
//@   requires h.Handler != nil

//@ func (*websocket.handlerWithMetrics).HandleEntityUpdatePose
//@   property C08
//@   requires h.Handler != nil

//@ func (*websocket.handlerWithMetrics).HandleParticipantJoin
//@   property C08
//@   requires h.Handler != nil

//@ func (*websocket.handlerWithMetrics).HandlePing
//@   property C08
//@   requires h.Handler != nil

//@ func (*websocket.handlerWithMetrics).HandlePingResponse
//@   property C08
//@   requires h.Handler != nil

//@ func (*websocket.handlerWithMetrics).HandleSignedLatency
//@   property C08
//@   requires h.Handler != nil

//@ func (*websocket.handlerWithMetrics).HandleWithModule
//@   property C08
//@   requires h.Handler != nil && module != nil

//@ func (*websocket.handlerWithMetrics).Receiver
//@   property C08
//@   requires h.Handler != nil

//@ func (*websocket.handlerWithMetrics).SendSyncClock
//@   property C08
//@   requires h.Handler != nil

//@ func (*websocket.handlerWithMetrics).Sender
//@   property C08
//@   requires h.Handler != nil


//go:build verif

// Contracts for package models, checked by /verif (hvc). This file contains no declarations:
// with the build tag off it is not compiled, with it on it adds nothing to the program.

package models

// ---------------------------------------------------------------------------------------------
// Lock discipline (C09): which mutex guards which field, and the global acquisition order.
// A field may be read with its mutex held for reading or writing and written only with it held
// for writing; objects still under construction (allocated in the same function) are exempt.
// Locks may only be acquired in strictly increasing level order.
// ---------------------------------------------------------------------------------------------

//@ type SequentialIDGenerator
//@   guarded_by currentID, reusableIDs : mutex
//@   lock_level mutex = 60

// identity and ownership are fixed at creation (C05: the owner field is set only when the entity is created)
//@ type Participant
//@   immutable ID, Responder, SignedLatency

//@ type Session
//@   immutable ID, SessionUUID, participants, entities, moduleStates, frameHandlers, entityComponents : NewSession
//@   guarded_by participants : participantMutex
//@   guarded_by entities : entityMutex
//@   guarded_by moduleStates : moduleMutex
//@   guarded_by frameHandlers : frameMutex
//@   lock_level frameMutex = 20
//@   lock_level participantMutex = 40
//@   lock_level entityMutex = 40
//@   lock_level moduleMutex = 40

//@ type Entity
//@   immutable ID, ParticipantID, Persist, Flag
//@   guarded_by pose : mutex
//@   lock_level mutex = 50

//@ type EntityComponentStore
//@   immutable nameIndex, idIndex, entityComponents, subscriptions : newEntityComponentStore
//@   guarded_by nameIndex, idIndex, entityComponents : mutex
//@   guarded_by subscriptions : subscriptionMutex
//@   lock_level subscriptionMutex = 30
//@   lock_level mutex = 40

//@ type SessionStore
//@   guarded_by sessions : mutex
//@   lock_level mutex = 10

//@ spec fn live(g *SequentialIDGenerator, i uint32) bool = 1 <= i && i <= g.currentID && !(i in g.reusableIDs)
//@ spec fn wfGen(g *SequentialIDGenerator) bool = forall i: uint32 :: i in g.reusableIDs ==> 1 <= i && i <= g.currentID

//@ func (*models.SequentialIDGenerator).New
//@   property C10
//@   requires wfGen(g)
//@   requires g.currentID < 4294967295
//@   modifies g.currentID, contents(g.reusableIDs)
//@   ensures wfGen(g)
//@   ensures result >= 1 && !old(live(g, result)) && live(g, result)
//@   ensures forall i: uint32 :: i != result ==> (live(g, i) <==> old(live(g, i)))
//@   behaviour recycle:
//@     assumes len(g.reusableIDs) > 0
//@     ensures old(result in g.reusableIDs) && g.currentID == old(g.currentID)
//@     ensures forall i: uint32 :: (i in g.reusableIDs) <==> (old(i in g.reusableIDs) && i != result)
//@   behaviour bump:
//@     assumes len(g.reusableIDs) == 0
//@     ensures result == old(g.currentID) + 1 && g.currentID == result
//@     ensures same_contents(g.reusableIDs)
//@   complete behaviours
//@   disjoint behaviours

//@ func (*models.SequentialIDGenerator).Reuse
//@   property C10
//@   requires wfGen(g)
//@   requires live(g, id)
//@   modifies g.reusableIDs, contents(g.reusableIDs)
//@   ensures wfGen(g)
//@   ensures !live(g, id)
//@   ensures forall i: uint32 :: i != id ==> (live(g, i) <==> old(live(g, i)))
//@   ensures g.currentID == old(g.currentID)

// ---------------------------------------------------------------------------------------------
// Session: participants, entities, broadcast
// ---------------------------------------------------------------------------------------------

//@ spec fn wfParts(s *Session) bool = s.participants != nil && forall id: uint32 :: id in s.participants ==> s.participants[id] != nil && s.participants[id].ID == id && s.participants[id].Responder != nil
//@ spec fn member(s *Session, p *Participant) bool = p != nil && p.ID in s.participants && s.participants[p.ID] == p
//@ spec fn wfEnts(s *Session) bool = s.entities != nil && forall id: uint32 :: id in s.entities ==> s.entities[id] != nil && s.entities[id].ID == id

//@ func (*models.Session).Broadcast
//@   property C02, C14
//@   event
//@   requires wfParts(s)
//@   modifies all ghost.delivered
//@   ensures {C02,C14} forall p: *Participant, m: int :: delivered(p, m) == old(delivered(p, m)) + ite(marshal_ok(protoMsg) && m == protoMsg && member(s, p) && p != sender, 1, 0)
//@   loop 1:
//@     invariant forall k: uint32 :: k in V ==> k in s.participants
//@     invariant forall p: *Participant, m: int :: delivered(p, m) == old(delivered(p, m)) + ite(m == protoMsg && p != nil && p.ID in V && s.participants[p.ID] == p && p != sender, 1, 0)
//@     emits {C02,C14} [when $p != sender =>> sendmsg($p.Responder, _)]

//@ func (*models.Session).GetParticipants
//@   property C01
//@   requires wfParts(s)
//@   modifies nothing
//@   allocates
//@   ensures len(result) == len(s.participants)
//@   ensures forall j: int :: 0 <= j && j < len(result) ==> member(s, result[j])
//@   ensures {C01} forall k: uint32 :: k in s.participants ==> exists j: int :: 0 <= j && j < len(result) && result[j] == s.participants[k]
//@   loop 1:
//@     ghost pos
//@     update pos[$p] = len($participants) - 1
//@     invariant len($participants) == N
//@     invariant forall k: uint32 :: k in V ==> k in s.participants
//@     invariant forall j: int :: 0 <= j && j < len($participants) ==> member(s, $participants[j])
//@     invariant forall k: uint32 :: k in V ==> 0 <= pos[s.participants[k]] && pos[s.participants[k]] < len($participants) && $participants[pos[s.participants[k]]] == s.participants[k]

//@ func (*models.Session).Entities
//@   property C01
//@   requires wfEnts(s)
//@   modifies nothing
//@   allocates
//@   ensures len(result) == len(s.entities)
//@   ensures forall j: int :: 0 <= j && j < len(result) ==> result[j] != nil && result[j].ID in s.entities && s.entities[result[j].ID] == result[j]
//@   ensures {C01} forall k: uint32 :: k in s.entities ==> exists j: int :: 0 <= j && j < len(result) && result[j] == s.entities[k]
//@   loop 1:
//@     ghost pos
//@     update pos[$e] = len($entities) - 1
//@     invariant forall k: uint32 :: k in V ==> 0 <= pos[s.entities[k]] && pos[s.entities[k]] < len($entities) && $entities[pos[s.entities[k]]] == s.entities[k]
//@     invariant len($entities) == N
//@     invariant forall k: uint32 :: k in V ==> k in s.entities
//@     invariant forall j: int :: 0 <= j && j < len($entities) ==> $entities[j] != nil && $entities[j].ID in s.entities && s.entities[$entities[j].ID] == $entities[j]

// ---------------------------------------------------------------------------------------------
// EntityComponentStore: abstract view  comp : (type, entity) -> component,  types : id <-> name
// ---------------------------------------------------------------------------------------------

// Stored protobuf messages are shared with readers outside the store's lock (List/ListAll hand out the
// pointers, the caller marshals them later): they must never be written after they were published.
//@ type hagallpb.EntityComponent
//@   immutable Data, EntityId, EntityComponentTypeId

//@ spec fn hasComp(c *EntityComponentStore, t uint32, e uint32) bool = t in c.entityComponents && e in c.entityComponents[t]
//@ spec fn compAt(c *EntityComponentStore, t uint32, e uint32) *hagallpb.EntityComponent = c.entityComponents[t][e]
//@ spec fn subscribed(c *EntityComponentStore, t uint32, p uint32) bool = t in c.subscriptions && p in c.subscriptions[t]
//@ spec fn wfTypes(c *EntityComponentStore) bool = c.nameIndex != nil && c.idIndex != nil
//@     && (forall id: uint32 :: id in c.nameIndex ==> 1 <= id && id <= c.ids.currentID && c.nameIndex[id] in c.idIndex && c.idIndex[c.nameIndex[id]] == id)
//@     && (forall n: string :: n in c.idIndex ==> c.idIndex[n] in c.nameIndex && c.nameIndex[c.idIndex[n]] == n)
//@     && wfGen(c.ids) && len(c.ids.reusableIDs) == 0
//@ spec fn wfComps(c *EntityComponentStore) bool = c.entityComponents != nil
//@     && (forall t: uint32 :: t in c.entityComponents ==> c.entityComponents[t] != nil && t in c.nameIndex)
//@     && (forall t1: uint32, t2: uint32 :: t1 in c.entityComponents && t2 in c.entityComponents && c.entityComponents[t1] == c.entityComponents[t2] ==> t1 == t2)
//@     && (forall t: uint32, e: uint32 :: hasComp(c, t, e) ==> compAt(c, t, e) != nil && compAt(c, t, e).EntityComponentTypeId == t && compAt(c, t, e).EntityId == e)
//@ spec fn wfSubs(c *EntityComponentStore) bool = c.subscriptions != nil
//@     && (forall t: uint32 :: t in c.subscriptions ==> c.subscriptions[t] != nil && t in c.nameIndex)
//@     && (forall t1: uint32, t2: uint32 :: t1 in c.subscriptions && t2 in c.subscriptions && c.subscriptions[t1] == c.subscriptions[t2] ==> t1 == t2)
//@ spec fn wfStore(c *EntityComponentStore) bool = wfTypes(c) && wfComps(c) && wfSubs(c)

//@ func (*models.EntityComponentStore).AddType
//@   property C12, C10
//@   requires wfStore(s) && s.ids.currentID < 4294967295
//@   modifies s.ids.currentID, contents(s.ids.reusableIDs), contents(s.nameIndex), contents(s.idIndex)
//@   ensures wfStore(s)
//@   ensures name in s.idIndex && s.idIndex[name] == result && result >= 1
//@   ensures same_contents(s.ids.reusableIDs)
//@   ensures forall n: string :: old(n in s.idIndex) ==> n in s.idIndex && s.idIndex[n] == old(s.idIndex[n])
//@   ensures forall id: uint32 :: old(id in s.nameIndex) ==> id in s.nameIndex && s.nameIndex[id] == old(s.nameIndex[id])
//@   behaviour known:
//@     assumes name in s.idIndex
//@     ensures {C12} result == old(s.idIndex[name]) && same_contents(s.idIndex, s.nameIndex) && unchanged(s.ids.currentID)
//@   behaviour fresh:
//@     assumes !(name in s.idIndex)
//@     ensures {C10,C12} result == old(s.ids.currentID) + 1 && !old(result in s.nameIndex) && s.nameIndex[result] == name
//@     ensures forall n: string :: n in s.idIndex ==> old(n in s.idIndex) || n == name
//@     ensures forall id: uint32 :: id in s.nameIndex ==> old(id in s.nameIndex) || id == result
//@   complete behaviours
//@   disjoint behaviours

//@ func (*models.EntityComponentStore).GetTypeName
//@   property C12
//@   requires wfStore(s)
//@   modifies nothing
//@   ensures (result1 == nil) <==> (entityComponentTypeID in s.nameIndex)
//@   ensures result1 == nil ==> result0 == s.nameIndex[entityComponentTypeID]

//@ func (*models.EntityComponentStore).GetTypeID
//@   property C12
//@   requires wfStore(s)
//@   modifies nothing
//@   ensures (result1 == nil) <==> (entityComponentTypeName in s.idIndex)
//@   ensures result1 == nil ==> result0 == s.idIndex[entityComponentTypeName]

//@ func (*models.EntityComponentStore).Add
//@   property C12
//@   requires wfStore(s) && ec != nil
//@   let T = ec.EntityComponentTypeId
//@   let E = ec.EntityId
//@   modifies contents(s.entityComponents), contents(s.entityComponents[ec.EntityComponentTypeId]) if ec.EntityComponentTypeId in s.entityComponents
//@   ensures {C03} forall t: uint32 :: t in s.entityComponents ==> (old(t in s.entityComponents) && s.entityComponents[t] == old(s.entityComponents[t])) || fresh(s.entityComponents[t])
//@   allocates
//@   ensures wfStore(s)
//@   ensures forall t: uint32, e: uint32 :: (t != T || e != E) ==> (hasComp(s, t, e) <==> old(hasComp(s, t, e))) && (hasComp(s, t, e) ==> compAt(s, t, e) == old(compAt(s, t, e)))
//@   behaviour unregistered:
//@     assumes !(T in s.nameIndex)
//@     ensures result != nil && errtype(result) == hwebsocket.ErrEntityComponentTypeNotAdded && !hasComp(s, T, E)
//@   behaviour duplicate:
//@     assumes T in s.nameIndex && hasComp(s, T, E)
//@     ensures result != nil && errtype(result) == hwebsocket.ErrEntityComponentTypeAlreadyAdded && hasComp(s, T, E) && compAt(s, T, E) == old(compAt(s, T, E))
//@   behaviour added:
//@     assumes T in s.nameIndex && !hasComp(s, T, E)
//@     ensures result == nil && hasComp(s, T, E) && compAt(s, T, E) == ec
//@   complete behaviours
//@   disjoint behaviours

//@ func (*models.EntityComponentStore).Delete
//@   property C12
//@   requires wfStore(s)
//@   modifies contents(s.entityComponents[entityComponentTypeID]) if entityComponentTypeID in s.entityComponents
//@   ensures wfStore(s)
//@   ensures result <==> old(hasComp(s, entityComponentTypeID, entityID))
//@   ensures !hasComp(s, entityComponentTypeID, entityID)
//@   ensures forall t: uint32, e: uint32 :: (t != entityComponentTypeID || e != entityID) ==> (hasComp(s, t, e) <==> old(hasComp(s, t, e))) && (hasComp(s, t, e) ==> compAt(s, t, e) == old(compAt(s, t, e)))

//@ func (*models.EntityComponentStore).Update
//@   property C12
//@   requires wfStore(s) && ec != nil
//@   let T = ec.EntityComponentTypeId
//@   let E = ec.EntityId
//@   modifies contents(s.entityComponents[ec.EntityComponentTypeId]) if ec.EntityComponentTypeId in s.entityComponents
//@   ensures wfStore(s)
//@   ensures forall t: uint32, e: uint32 :: (hasComp(s, t, e) <==> old(hasComp(s, t, e))) && ((t != T || e != E) && hasComp(s, t, e) ==> compAt(s, t, e) == old(compAt(s, t, e)))
//@   behaviour absent:
//@     assumes !hasComp(s, T, E)
//@     ensures {C12} result != nil
//@   behaviour present:
//@     assumes hasComp(s, T, E)
//@     ensures {C12} result == nil && compAt(s, T, E) == ec
//@   complete behaviours
//@   disjoint behaviours

//@ func (*models.EntityComponentStore).DeleteByEntityID
//@   property C12
//@   requires wfStore(s)
//@   modifies all contents(map[uint32]*hagallpb.EntityComponent @ models.EntityComponentStore.entityComponents[])
//@   ensures wfStore(s)
//@   ensures forall t: uint32, e: uint32 :: (hasComp(s, t, e) <==> (old(hasComp(s, t, e)) && e != entityID)) && (hasComp(s, t, e) ==> compAt(s, t, e) == old(compAt(s, t, e)))
//@   ensures forall m: map[uint32]*hagallpb.EntityComponent @ models.EntityComponentStore.entityComponents[] :: (forall t: uint32 :: t in s.entityComponents ==> s.entityComponents[t] != m) ==> same_contents(m)
//@   loop 1:
//@     invariant wfStore(s)
//@     invariant forall k: uint32 :: k in V ==> k in s.entityComponents
//@     invariant forall t: uint32, e: uint32 :: (hasComp(s, t, e) <==> (old(hasComp(s, t, e)) && !(t in V && e == entityID))) && (hasComp(s, t, e) ==> compAt(s, t, e) == old(compAt(s, t, e)))
//@     invariant forall m: map[uint32]*hagallpb.EntityComponent @ models.EntityComponentStore.entityComponents[] :: (forall t: uint32 :: t in s.entityComponents ==> s.entityComponents[t] != m) ==> same_contents(m)

//@ func (*models.EntityComponentStore).List
//@   property C12
//@   event
//@   requires wfStore(s)
//@   modifies nothing
//@   allocates
//@   ensures len(result) == ite(entityComponentTypeID in s.entityComponents, len(s.entityComponents[entityComponentTypeID]), 0)
//@   ensures forall j: int :: 0 <= j && j < len(result) ==> result[j] != nil && hasComp(s, entityComponentTypeID, result[j].EntityId) && compAt(s, entityComponentTypeID, result[j].EntityId) == result[j]
//@   loop 1:
//@     invariant entityComponentTypeID in s.entityComponents
//@     invariant len($list) == N
//@     invariant forall j: int :: 0 <= j && j < len($list) ==> $list[j] != nil && hasComp(s, entityComponentTypeID, $list[j].EntityId) && compAt(s, entityComponentTypeID, $list[j].EntityId) == $list[j]

//@ func (*models.EntityComponentStore).Subscribe
//@   property C13
//@   requires wfStore(s)
//@   modifies contents(s.subscriptions), contents(s.subscriptions[entityComponentTypeID]) if entityComponentTypeID in s.subscriptions
//@   ensures {C03} forall t: uint32 :: t in s.subscriptions ==> (old(t in s.subscriptions) && s.subscriptions[t] == old(s.subscriptions[t])) || fresh(s.subscriptions[t])
//@   allocates
//@   ensures wfStore(s)
//@   ensures forall t: uint32, p: uint32 :: (t != entityComponentTypeID || p != participantID) ==> (subscribed(s, t, p) <==> old(subscribed(s, t, p)))
//@   behaviour unregistered:
//@     assumes !(entityComponentTypeID in s.nameIndex)
//@     ensures {C13} result != nil && (subscribed(s, entityComponentTypeID, participantID) <==> old(subscribed(s, entityComponentTypeID, participantID)))
//@   behaviour registered:
//@     assumes entityComponentTypeID in s.nameIndex
//@     ensures {C13} result == nil && subscribed(s, entityComponentTypeID, participantID)
//@   complete behaviours
//@   disjoint behaviours

//@ func (*models.EntityComponentStore).Unsubscribe
//@   property C13
//@   requires wfStore(s)
//@   modifies contents(s.subscriptions[entityComponentTypeID]) if entityComponentTypeID in s.subscriptions
//@   ensures wfStore(s)
//@   ensures {C13} !subscribed(s, entityComponentTypeID, participantID)
//@   ensures forall t: uint32, p: uint32 :: (t != entityComponentTypeID || p != participantID) ==> (subscribed(s, t, p) <==> old(subscribed(s, t, p)))

//@ func (*models.EntityComponentStore).UnsubscribeByParticipant
//@   property C13, C06
//@   requires wfStore(s)
//@   modifies all contents(map[uint32]struct{} @ models.EntityComponentStore.subscriptions[])
//@   ensures wfStore(s)
//@   ensures {C13,C06} forall t: uint32, p: uint32 :: subscribed(s, t, p) <==> (old(subscribed(s, t, p)) && p != participantID)
//@   ensures forall m: map[uint32]struct{} @ models.EntityComponentStore.subscriptions[] :: (forall t: uint32 :: t in s.subscriptions ==> s.subscriptions[t] != m) ==> same_contents(m)
//@   loop 1:
//@     invariant wfStore(s)
//@     invariant forall k: uint32 :: k in V ==> k in s.subscriptions
//@     invariant forall t: uint32, p: uint32 :: subscribed(s, t, p) <==> (old(subscribed(s, t, p)) && !(t in V && p == participantID))
//@     invariant forall m: map[uint32]struct{} @ models.EntityComponentStore.subscriptions[] :: (forall t: uint32 :: t in s.subscriptions ==> s.subscriptions[t] != m) ==> same_contents(m)

//@ spec fn subscriberCount(c *EntityComponentStore, t uint32) int = ite(t in c.subscriptions, len(c.subscriptions[t]), 0)

//@ func (*models.EntityComponentStore).Notify
//@   property C13
//@   requires wfStore(s) && h != nil
//@   modifies nothing
//@   allocates
//@   calls h(ids) when subscriberCount(s, entityComponentTypeID) > 0 holding subscriptionMutex:r
//@     with {C13} len(ids) == subscriberCount(s, entityComponentTypeID)
//@     with {C13} forall j: int :: 0 <= j && j < len(ids) ==> subscribed(s, entityComponentTypeID, ids[j])
//@     with {C13} forall p: uint32 :: subscribed(s, entityComponentTypeID, p) ==> exists j: int :: 0 <= j && j < len(ids) && ids[j] == p
//@   loop 1:
//@     ghost pos
//@     update pos[$participantID] = len($participantIDs) - 1
//@     invariant entityComponentTypeID in s.subscriptions
//@     invariant len($participantIDs) == N
//@     invariant forall k: uint32 :: k in V ==> subscribed(s, entityComponentTypeID, k)
//@     invariant forall j: int :: 0 <= j && j < len($participantIDs) ==> $participantIDs[j] in V
//@     invariant forall p: uint32 :: p in V ==> 0 <= pos[p] && pos[p] < len($participantIDs) && $participantIDs[pos[p]] == p

//@ spec fn named(ids []uint32, x uint32) bool = exists i: int :: 0 <= i && i < len(ids) && ids[i] == x

//@ func (*models.Session).GetParticipantsByIDs
//@   property C14, C13
//@   requires wfParts(s)
//@   modifies nothing
//@   allocates
//@   ensures forall j: int :: 0 <= j && j < len(result) ==> member(s, result[j]) && named(ids, result[j].ID)
//@   ensures forall i: int :: 0 <= i && i < len(ids) && ids[i] in s.participants ==> exists j: int :: 0 <= j && j < len(result) && result[j] == s.participants[ids[i]]
//@   loop 1:
//@     ghost src, pos
//@     update src[len($participants) - 1] = $rangeindex when ids[$rangeindex] in s.participants
//@     update pos[$rangeindex] = len($participants) - 1 when ids[$rangeindex] in s.participants
//@     invariant -1 <= $rangeindex && $rangeindex < len(ids)
//@     invariant forall j: int :: 0 <= j && j < len($participants) ==> member(s, $participants[j]) && 0 <= src[j] && src[j] <= $rangeindex && ids[src[j]] == $participants[j].ID
//@     invariant forall i: int :: 0 <= i && i <= $rangeindex && ids[i] in s.participants ==> 0 <= pos[i] && pos[i] < len($participants) && $participants[pos[i]] == s.participants[ids[i]]

//@ func (*models.Session).BroadcastTo
//@   property C13, C14
//@   event
//@   requires wfParts(s)
//@   modifies all ghost.delivered
//@   allocates
//@   ensures {C13,C14} forall p: *Participant, m: int :: delivered(p, m) == old(delivered(p, m)) + ite(marshal_ok(protoMsg) && m == protoMsg && member(s, p) && p != sender && named(participantIds, p.ID), 1, 0)
//@   loop 1:
//@     ghost hidx
//@     update hidx[$p.ID] = $rangeindex
//@     invariant -1 <= $rangeindex && $rangeindex < len($participants)
//@     invariant forall q: *Participant, m: int :: delivered(q, m) == old(delivered(q, m)) + ite(m == protoMsg && q != nil && q != sender && q.ID in $isParticipantHandled && member(s, q), 1, 0)
//@     invariant forall x: uint32 :: x in $isParticipantHandled ==> 0 <= hidx[x] && hidx[x] <= $rangeindex && $participants[hidx[x]].ID == x
//@     invariant forall j: int :: 0 <= j && j <= $rangeindex && $participants[j] != sender ==> $participants[j].ID in $isParticipantHandled
//@     emits {C13,C14} [when $p != sender && !($p.ID in $isParticipantHandled) =>> sendmsg($p.Responder, _)]

// ---------------------------------------------------------------------------------------------
// Session representation invariant
// ---------------------------------------------------------------------------------------------

//@ spec fn wfIDs(s *Session) bool = wfGen(s.entityIDs) && len(s.entityIDs.reusableIDs) == 0 && wfGen(s.participantIDs) && len(s.participantIDs.reusableIDs) == 0
//@     && (forall id: uint32 :: id in s.entities ==> 1 <= id && id <= s.entityIDs.currentID && s.entities[id].ParticipantID <= s.participantIDs.currentID)
//@     && (forall id: uint32 :: id in s.participants ==> 1 <= id && id <= s.participantIDs.currentID)
//@     && (forall p: uint32, e: uint32 :: p in s.participants && e in s.participants[p].entityIDs ==> e <= s.entityIDs.currentID)
//@ spec fn wfOwnership(s *Session) bool = (forall id: uint32 :: id in s.entities && s.entities[id].ParticipantID in s.participants ==> id in s.participants[s.entities[id].ParticipantID].entityIDs)
//@     && (forall id: uint32 :: id in s.entities && !(s.entities[id].ParticipantID in s.participants) ==> s.entities[id].Persist)
//@     && (forall p: uint32, e: uint32 :: p in s.participants && e in s.participants[p].entityIDs && e in s.entities ==> s.entities[e].ParticipantID == p)
//@     && (forall p1: uint32, p2: uint32 :: p1 in s.participants && p2 in s.participants && p1 != p2 && s.participants[p1].entityIDs != nil ==> s.participants[p1].entityIDs != s.participants[p2].entityIDs)
//@ spec fn wfFrames(s *Session) bool = s.frameHandlers != nil && wfGen(s.frameHandlerIDs) && (forall k: uint32 :: k in s.frameHandlers ==> live(s.frameHandlerIDs, k) && s.frameHandlers[k] != nil)
//@ spec fn wfSession(s *Session) bool = wfParts(s) && wfEnts(s) && s.entityComponents != nil && wfStore(s.entityComponents) && wfIDs(s) && wfOwnership(s) && wfFrames(s)

// ---------------------------------------------------------------------------------------------
// Snapshot helpers (used by the join handshake)
// ---------------------------------------------------------------------------------------------

//@ func models.ParticipantsToProtobuf
//@   property C01
//@   requires forall j: int :: 0 <= j && j < len(participants) ==> participants[j] != nil
//@   modifies nothing
//@   allocates
//@   ensures len(result) == len(participants)
//@   ensures forall j: int :: 0 <= j && j < len(result) ==> result[j] != nil && fresh(result[j]) && result[j].Id == participants[j].ID
//@   loop 1:
//@     invariant -1 <= $rangeindex && $rangeindex < len(participants)
//@     invariant forall j: int :: 0 <= j && j <= $rangeindex ==> $res[j] != nil && fresh($res[j]) && $res[j].Id == participants[j].ID

//@ func models.EntitiesToProtobuf
//@   property C01
//@   requires forall j: int :: 0 <= j && j < len(entities) ==> entities[j] != nil
//@   modifies nothing
//@   allocates
//@   ensures len(result) == len(entities)
//@   ensures forall j: int :: 0 <= j && j < len(result) ==> result[j] != nil && fresh(result[j]) && result[j].Id == entities[j].ID && result[j].ParticipantId == entities[j].ParticipantID && result[j].Flag == entities[j].Flag
//@   ensures forall j: int :: 0 <= j && j < len(result) ==> result[j].Pose != nil && result[j].Pose.Px == entities[j].pose.PX && result[j].Pose.Py == entities[j].pose.PY && result[j].Pose.Pz == entities[j].pose.PZ && result[j].Pose.Rx == entities[j].pose.RX && result[j].Pose.Ry == entities[j].pose.RY && result[j].Pose.Rz == entities[j].pose.RZ && result[j].Pose.Rw == entities[j].pose.RW
//@   loop 1:
//@     invariant -1 <= $rangeindex && $rangeindex < len(entities)
//@     invariant forall j: int :: 0 <= j && j <= $rangeindex ==> $pEntitites[j] != nil && fresh($pEntitites[j]) && $pEntitites[j].Id == entities[j].ID && $pEntitites[j].ParticipantId == entities[j].ParticipantID && $pEntitites[j].Flag == entities[j].Flag
//@     invariant forall j: int :: 0 <= j && j <= $rangeindex ==> $pEntitites[j].Pose != nil && fresh($pEntitites[j].Pose) && $pEntitites[j].Pose.Px == entities[j].pose.PX && $pEntitites[j].Pose.Py == entities[j].pose.PY && $pEntitites[j].Pose.Pz == entities[j].pose.PZ && $pEntitites[j].Pose.Rx == entities[j].pose.RX && $pEntitites[j].Pose.Ry == entities[j].pose.RY && $pEntitites[j].Pose.Rz == entities[j].pose.RZ && $pEntitites[j].Pose.Rw == entities[j].pose.RW

//@ func (*models.EntityComponentStore).ListAll
//@   property C01
//@   requires wfStore(s)
//@   modifies nothing
//@   allocates
//@   ensures forall j: int :: 0 <= j && j < len(result) ==> result[j] != nil && hasComp(s, result[j].EntityComponentTypeId, result[j].EntityId) && compAt(s, result[j].EntityComponentTypeId, result[j].EntityId) == result[j]
//@   ensures forall t: uint32, e: uint32 :: hasComp(s, t, e) ==> exists j: int :: 0 <= j && j < len(result) && result[j] == compAt(s, t, e)
//@   loop 1:
//@     ghost pos
//@     invariant forall k: uint32 :: k in V1 ==> k in s.entityComponents
//@     invariant forall j: int :: 0 <= j && j < len($list) ==> $list[j] != nil && hasComp(s, $list[j].EntityComponentTypeId, $list[j].EntityId) && compAt(s, $list[j].EntityComponentTypeId, $list[j].EntityId) == $list[j]
//@     invariant forall t: uint32, e: uint32 :: t in V1 && hasComp(s, t, e) ==> 0 <= pos[compAt(s, t, e)] && pos[compAt(s, t, e)] < len($list) && $list[pos[compAt(s, t, e)]] == compAt(s, t, e)
//@   loop 2:
//@     update pos[$ec] = len($list) - 1
//@     invariant forall k: uint32 :: k in V1 ==> k in s.entityComponents
//@     invariant exists t0: uint32 :: t0 in V1 && t0 in s.entityComponents && s.entityComponents[t0] == $ecs
//@     invariant forall j: int :: 0 <= j && j < len($list) ==> $list[j] != nil && hasComp(s, $list[j].EntityComponentTypeId, $list[j].EntityId) && compAt(s, $list[j].EntityComponentTypeId, $list[j].EntityId) == $list[j]
//@     invariant forall t: uint32, e: uint32 :: t in V1 && hasComp(s, t, e) && (s.entityComponents[t] != $ecs || e in V2) ==> 0 <= pos[compAt(s, t, e)] && pos[compAt(s, t, e)] < len($list) && $list[pos[compAt(s, t, e)]] == compAt(s, t, e)

// ---------------------------------------------------------------------------------------------
// SessionStore: the registry of discoverable sessions
// ---------------------------------------------------------------------------------------------

//@ uf gid(string, uint32) string injective

//@ spec fn wfRegistry(ss *SessionStore) bool = wfGen(ss.ids)
//@     && (once_done(ss.initOnce) ==> ss.sessions != nil && ss.DiscoveryService != nil
//@          && (forall g: string :: g in ss.sessions ==> ss.sessions[g] != nil && g != "" && g == gid(serverid(ss.DiscoveryService), ss.sessions[g].ID) && live(ss.ids, ss.sessions[g].ID)))
//@ spec fn registered(ss *SessionStore, s *Session) bool = once_done(ss.initOnce) && gid(serverid(ss.DiscoveryService), s.ID) in ss.sessions && ss.sessions[gid(serverid(ss.DiscoveryService), s.ID)] == s

//@ func (*models.SessionStore).GlobalSessionID
//@   property C07
//@   trusted
//@   requires s.DiscoveryService != nil
//@   modifies nothing
//@   ensures result == gid(serverid(s.DiscoveryService), sessionID) && result != ""

//@ func (*models.SessionStore).GetByGlobalID
//@   property C07
//@   requires wfRegistry(s)
//@   modifies s.initOnce, s.sessions, s.DiscoveryService
//@   allocates
//@   ensures wfRegistry(s) && once_done(s.initOnce)
//@   ensures old(once_done(s.initOnce)) ==> unchanged(s.sessions, s.DiscoveryService)
//@   ensures !old(once_done(s.initOnce)) ==> len(s.sessions) == 0 && fresh(s.sessions)
//@   ensures {C07} result1 <==> (v in s.sessions)
//@   ensures {C07} result1 ==> result0 == s.sessions[v]
//@   ensures !result1 ==> result0 == nil

//@ func (*models.SessionStore).Add
//@   property C07
//@   requires wfRegistry(s) && session != nil && live(s.ids, session.ID)
//@   requires once_done(s.initOnce) ==> !(gid(serverid(s.DiscoveryService), session.ID) in s.sessions)
//@   modifies s.initOnce, s.sessions, s.DiscoveryService, contents(s.sessions), all ghost.gauge.sessions, all ghost.gaugetotal.sessions
//@   allocates
//@   ensures wfRegistry(s) && once_done(s.initOnce) && result == nil
//@   ensures old(once_done(s.initOnce)) ==> unchanged(s.sessions, s.DiscoveryService)
//@   ensures {C07} registered(s, session)
//@   ensures {C07} forall g: string :: g != gid(serverid(s.DiscoveryService), session.ID) ==> ((g in s.sessions) <==> (old(once_done(s.initOnce)) && old(g in s.sessions))) && (g in s.sessions ==> s.sessions[g] == old(s.sessions[g]))
//@   ensures {C07} gaugetotal(sessions) == old(gaugetotal(sessions)) + 1

// The frame worker: one goroutine per session, started once; on every tick it calls the registered frame
// callbacks with frameMutex held for reading, and it returns only after the stop signal of Close.
//@ func (*models.Session).StartDispatchFrames
//@   property C09, C07
//@   requires s.frameTicker != nil && s.closeFrameChan != nil
//@   requires forall k: uint32 :: k in s.frameHandlers ==> s.frameHandlers[k] != nil
//@   modifies all *
//@   allocates

//@ func (*models.Session).StartDispatchFrames$1
//@   property C09, C07
//@   requires s != nil && s.frameTicker != nil && s.closeFrameChan != nil
//@   requires forall k: uint32 :: k in s.frameHandlers ==> s.frameHandlers[k] != nil
//@   modifies all *
//@   allocates
//@   loop 1:
//@     invariant unchanged(s) && s != nil && s.frameTicker != nil && s.closeFrameChan != nil
//@   loop 2:
//@     invariant unchanged(s) && s != nil
//@     emits [callfn(_)]

//@ func (*models.Session).Close
//@   property C07
//@   event
//@   assume_nonblocking closeFrameChan has capacity 1 and is sent to at most once (inside closeOnce.Do)
//@   modifies s.closeOnce
//@   ensures once_done(s.closeOnce)
// the stop signal for the frame worker is sent exactly when the session is closed for the first time
//@   emits {C07} [when !once_done(s.closeOnce) =>> chansend(s.closeFrameChan, _)]

//@ func (*models.SessionStore).Remove
//@   property C07, C10
//@   requires wfRegistry(s) && session != nil && registered(s, session)
//@   modifies contents(s.sessions), contents(s.ids.reusableIDs), s.ids.reusableIDs, session.closeOnce, all ghost.gauge.sessions, all ghost.gaugetotal.sessions
//@   allocates
//@   ensures wfRegistry(s) && once_done(s.initOnce)
//@   ensures {C07} !(gid(serverid(s.DiscoveryService), session.ID) in s.sessions) && once_done(session.closeOnce)
//@   ensures {C07} forall g: string :: g != gid(serverid(s.DiscoveryService), session.ID) ==> ((g in s.sessions) <==> old(g in s.sessions)) && (g in s.sessions ==> s.sessions[g] == old(s.sessions[g]))
//@   ensures {C10} !live(s.ids, session.ID) && forall i: uint32 :: i != session.ID ==> (live(s.ids, i) <==> old(live(s.ids, i)))
//@   ensures {C07} gaugetotal(sessions) == old(gaugetotal(sessions)) - 1

// init is only ever run as the body of initOnce.Do (every accessor calls Do first), so its writes
// are ordered before every later access by sync.Once.
//@ func (*models.SessionStore).init
//@   once_body

// ---------------------------------------------------------------------------------------------
// Signed latency measurement (C18)
// ---------------------------------------------------------------------------------------------

//@ spec fn answered(s *SignedLatency, id uint32) bool = id in s.PingRequests && s.PingRequests[id].End != 0
//@ spec fn pending(s *SignedLatency, id uint32) bool = id in s.PingRequests && s.PingRequests[id].End == 0

//@ func (*models.SignedLatency).sendPingRequest
//@   property C18
//@   event
//@   requires s.sender != nil && s.PingRequests != nil
//@   modifies contents(s.PingRequests), all ghost.*
//@   allocates
//@   ensures unchanged(s.Iteration)
//@   emits {C18} [send(s.sender, hagallpb.Response{Type: hagallpb.MsgType_MSG_TYPE_PING_REQUEST, RequestId: bind(nid)})]
//@   ensures {C18} pending(s, nid) && s.PingRequests[nid].Start != 0
//@   ensures {C18} forall k: uint32 :: k != nid ==> ((k in s.PingRequests) <==> old(k in s.PingRequests)) && (k in s.PingRequests ==> s.PingRequests[k] == old(s.PingRequests[k]))
//@   ensures {C18} !old(nid in s.PingRequests) ==> len(s.PingRequests) == old(len(s.PingRequests)) + 1

//@ func (*models.SignedLatency).Start
//@   property C18
//@   event
//@   requires sender != nil
//@   modifies all models.SignedLatency.*, all ghost.*
//@   allocates
//@   ensures {C18} s.RequestID == requestID && s.Iteration == iteration && s.SessionID == sessionID && s.ClientID == clientID && s.WalletAddress == walletAddress && s.sender == sender && s.privateKey == privateKey
//@   ensures {C18} len(s.PingRequests) == 1 && fresh(s.PingRequests) && exists nid: uint32 :: pending(s, nid)
//@   emits {C18} [sendPingRequest(s)]

//@ spec fn lat(s *SignedLatency, k uint32) float64 = real(truncdiv(s.PingRequests[k].End - s.PingRequests[k].Start, 1000))

//@ func (*models.SignedLatency).OnPing
//@   property C18
//@   event
//@   let id = pingReqID
//@   requires pingReqID in s.PingRequests ==> s.sender != nil
//@   requires forall k: uint32 :: pending(s, k) ==> s.Iteration >= 1
//@   requires len(s.PingRequests) < 4294967296
//@   modifies s.Iteration, contents(s.PingRequests), all ghost.*
//@   allocates
//@   behaviour unknown:
//@     assumes !(id in s.PingRequests)
//@     ensures {C18} result != nil && unchanged_world()
//@     emits {C18} []
//@   behaviour replayed:
//@     assumes answered(s, id)
//@     ensures {C18} result != nil && unchanged_world()
//@     emits {C18} []
//@   behaviour next_round:
//@     assumes pending(s, id) && s.Iteration > 1
//@     ensures {C18} result == nil && s.Iteration == old(s.Iteration) - 1
//@     ensures {C18} exists nid: uint32 :: pending(s, nid) && (nid != id ==> answered(s, id) && s.PingRequests[id].Start == old(s.PingRequests[id].Start)) && (!old(nid in s.PingRequests) ==> len(s.PingRequests) == old(len(s.PingRequests)) + 1) && forall k: uint32 :: k != nid && k != id ==> ((k in s.PingRequests) <==> old(k in s.PingRequests)) && (k in s.PingRequests ==> s.PingRequests[k] == old(s.PingRequests[k]))
//@     emits {C18} [sendPingRequest(s)]
//@   behaviour final:
//@     assumes pending(s, id) && s.Iteration == 1
//@     ensures {C18} s.Iteration == 0 && answered(s, id) && len(s.PingRequests) == old(len(s.PingRequests))
//@     ensures {C18} forall k: uint32 :: ((k in s.PingRequests) <==> old(k in s.PingRequests)) && (k != id && k in s.PingRequests ==> s.PingRequests[k] == old(s.PingRequests[k]))
//@     emits {C18} [when result == nil =>> send(s.sender, hagallpb.SignedLatencyResponse{Type: hagallpb.MsgType_MSG_TYPE_SIGNED_LATENCY_RESPONSE, RequestId: s.RequestID, Data: bind(D), Signature: hexenc(sign(hashbytes(keccak(D)), s.privateKey))})]
//@     ensures {C18} result == nil ==> marshaled(D, hagallpb.LatencyData).ClientId == s.ClientID && marshaled(D, hagallpb.LatencyData).SessionId == s.SessionID && marshaled(D, hagallpb.LatencyData).WalletAddress == s.WalletAddress && marshaled(D, hagallpb.LatencyData).IterationCount == len(s.PingRequests)
//@     ensures {C18} result == nil ==> len(marshaled(D, hagallpb.LatencyData).PingRequestIds) == len(s.PingRequests) && forall j: int :: 0 <= j && j < len(marshaled(D, hagallpb.LatencyData).PingRequestIds) ==> marshaled(D, hagallpb.LatencyData).PingRequestIds[j] in s.PingRequests
//@     ensures {C18} result == nil ==> forall k: uint32 :: k in s.PingRequests ==> exists j: int :: 0 <= j && j < len(marshaled(D, hagallpb.LatencyData).PingRequestIds) && marshaled(D, hagallpb.LatencyData).PingRequestIds[j] == k
//@     ensures {C18} result == nil ==> marshaled(D, hagallpb.LatencyData).Min <= marshaled(D, hagallpb.LatencyData).Max && marshaled(D, hagallpb.LatencyData).Last == lat(s, id)
//@     ensures {C18} result == nil ==> marshaled(D, hagallpb.LatencyData).Min <= marshaled(D, hagallpb.LatencyData).Last && marshaled(D, hagallpb.LatencyData).Last <= marshaled(D, hagallpb.LatencyData).Max
//@     ensures {C18} result == nil ==> forall k: uint32 :: k in s.PingRequests ==> marshaled(D, hagallpb.LatencyData).Min <= lat(s, k) && lat(s, k) <= marshaled(D, hagallpb.LatencyData).Max
//@     ensures {C18} result == nil && len(s.PingRequests) >= 2 ==> marshaled(D, hagallpb.LatencyData).Min <= marshaled(D, hagallpb.LatencyData).P95 && marshaled(D, hagallpb.LatencyData).P95 <= marshaled(D, hagallpb.LatencyData).Max
//@   complete behaviours
//@   disjoint behaviours
//@   loop 1:
//@     invariant real(N) * $min <= $mean && $mean <= real(N) * $max
//@     invariant len($latencies) == N && (N == 0 || fresh($latencies))
//@     invariant forall k: uint32 :: k in V ==> N >= 1 && k in s.PingRequests && $min <= lat(s, k) && lat(s, k) <= $max
//@     invariant forall j: int :: 0 <= j && j < len($latencies) ==> $min <= $latencies[j] && $latencies[j] <= $max
//@     invariant N >= 1 ==> $min <= $max
//@   loop 2:
//@     ghost pos
//@     update pos[$k] = len($pingRequestIDs) - 1
//@     invariant len($pingRequestIDs) == N
//@     invariant forall j: int :: 0 <= j && j < len($pingRequestIDs) ==> $pingRequestIDs[j] in V
//@     invariant forall k: uint32 :: k in V ==> k in s.PingRequests && 0 <= pos[k] && pos[k] < len($pingRequestIDs) && $pingRequestIDs[pos[k]] == k
